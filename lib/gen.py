"""harness generators shared by several properties"""
import re
from ipv import Undecided


def insert_stubs(u, no_ctor_key=()):
    """one contract stub per container<T>::insert instantiation of the unit (DESIGN.md A3): returns (C text, [mangled names], table info)"""
    calls = {c['caller']: c['callees'] for c in u.json['calls']}
    byname = {f['name']: f for f in u.json['functions']}
    text, skipped, info = 'static int ORDER_CHECKED;\n', [], []
    etypes, declared = {}, set()
    for f in u.json['functions']:
        if not re.search(r'rb_tree::container<.*>::insert$', f['qualified']):
            continue
        m = re.match(r'(.+?) \* (\w+)\((.+?) \*self, (.+?) \*v_\w+, (.+?) v_\w+\)$', f['sig'])
        if not m:
            raise Undecided('cannot parse insert signature: ' + f['sig'][:200])
        elem_t, fn, self_t, key_t, comp_t = m.groups()
        cs = calls.get(fn, [])
        cmp_ = [c for c in cs if c in byname and 'operator()' in byname[c]['qualified']]
        mk = [c for c in cs if c in byname and byname[c]['qualified'].endswith('::make_node')]
        if len(cmp_) != 1 or len(mk) != 1:
            raise Undecided('MUST-FIRE: insert %s: expected one comparator call and one make_node, found %s / %s' % (fn, cmp_, mk))
        k = len(info)
        # the witness belongs to the TABLE (an earlier element of that container object), whichever instantiation of insert entered it:
        # two constructors sharing one table with different comparators (get_symbol / get_label) see each other's elements
        ek = etypes.setdefault(elem_t, len(etypes))
        if ek == len(etypes) - 1 and elem_t not in declared:
            declared.add(elem_t)
            text += 'static %s* WE%d; static void* WTAB%d; static %s* LASTE%d; static void* LASTTAB%d;\n' % (elem_t, ek, ek, elem_t, ek, ek)
        text += '#define W%d WE%d\n#define LAST%d LASTE%d\n#define WT%d WTAB%d\n#define LASTT%d LASTTAB%d\nstatic int INS%d;\n#define CMP%d %s\n#define COMP%d_T %s\n' % (k, ek, k, ek, k, ek, k, ek, k, k, cmp_[0], k, comp_t)
        bycopy = key_t.endswith('3RepE') or 'Rep' in key_t.split('_')[-1]
        # ghost record of the first three (element, key) pairs entered, for the CMP-ORDER lemma
        text += 'static %s* RE%d[3]; static %s %sRK%d[3]; static %s RC%d[3]; static int REC%d;\n' % (elem_t, k, key_t, '' if bycopy else '*', k, comp_t, k, k)
        keyref = '&RK%d[%%s]' % k if bycopy else 'RK%d[%%s]' % k
        text += '#define SGN(x) ((x) < 0 ? -1 : (x) > 0 ? 1 : 0)\n' if k == 0 else ''
        # the comparator object is the one passed with the request whose key is compared (it may capture part of the request: get_symbol)
        text += ('static void order_check%d(void)\n{\n  if (REC%d < 3) return;\n' % (k, k)
                 + '  int c00 = CMP%d(&RC%d[0], RE%d[0], %s), c01 = CMP%d(&RC%d[1], RE%d[0], %s), c10 = CMP%d(&RC%d[0], RE%d[1], %s), c12 = CMP%d(&RC%d[2], RE%d[1], %s), c02 = CMP%d(&RC%d[2], RE%d[0], %s), c21 = CMP%d(&RC%d[1], RE%d[2], %s);\n'
                   % (k, k, k, keyref % 0, k, k, k, keyref % 1, k, k, k, keyref % 0, k, k, k, keyref % 2, k, k, k, keyref % 2, k, k, k, keyref % 1)
                 + '  __CPROVER_assert(c00 == 0, "CMP-ORDER: an element compares equal to the key it was built from");\n'
                 + '  __CPROVER_assert(SGN(c01) == -SGN(c10) && SGN(c12) == -SGN(c21), "CMP-ORDER: the comparator is antisymmetric through the key projection");\n'
                 + '  __CPROVER_assert(!(c01 < 0 && c12 < 0) || c02 < 0, "CMP-ORDER: the comparator is transitive");\n'
                 + '  __CPROVER_assert(!(c01 == 0 && c12 == 0) || c02 == 0, "CMP-ORDER: comparing equal is transitive");\n'
                 + '  __CPROVER_assert(!(c01 == 0 && c12 < 0) || c02 < 0, "CMP-ORDER: equal keys are interchangeable");\n  ORDER_CHECKED++;\n}\n')
        text += '/* contract of %s, comparator as resolved by clang: %s */\n' % (f['qualified'], byname[cmp_[0]]['qualified'])
        text += '%s* %s(%s* self, %s* key, %s comp)\n{\n  INS%d++;\n' % (elem_t, fn, self_t, key_t, comp_t, k)
        text += '  __CPROVER_assume(self->__b0.f_count >= 0 && self->__b0.f_count < ((long)1 << 62));\n'
        text += '  if (W%d != 0 && WT%d == (void*)self && %s(&comp, W%d, key) == 0) { LASTT%d = self; return LAST%d = W%d; }   /* an equal element exists in this table: returned, nothing added */\n' % (k, k, cmp_[0], k, k, k, k)
        text += '  __typeof__(*%s(0, 0))* n = %s(self, key);                    /* otherwise a new element is built from the key */\n' % (mk[0], mk[0])
        text += '  self->__b0.f_count++;\n'
        if not any(x in byname[cmp_[0]]['qualified'] for x in no_ctor_key):   # tables whose element is completed after insertion (get_symbol sets the type afterwards)
            text += '  __CPROVER_assert(%s(&comp, &n->f_data, key) == 0, "CTOR-KEY: the element built from a key compares equal to that key");\n' % cmp_[0]
        text += '  if (REC%d < 3) { RE%d[REC%d] = &n->f_data; RK%d[REC%d] = %skey; RC%d[REC%d] = comp; REC%d++; }\n' % (k, k, k, k, k, '*' if bycopy else '', k, k, k)
        text += '  LASTT%d = self; return LAST%d = &n->f_data;\n}\n\n' % (k, k)
        skipped.append(fn)
        info.append(dict(k=k, fn=fn, table=f['qualified'], cmp=byname[cmp_[0]]['qualified'], elem=elem_t))
    # container<T>::find, where the (changed) code under contract looks a table up without inserting: same single-witness model --
    # an element of this table that compares equal to the key under the comparator passed, or null
    for f in u.json['functions']:
        if not re.search(r'rb_tree::container<.*>::find$', f['qualified']):
            continue
        m = re.match(r'(.+?) \* (\w+)\((.+?) \*self, (.+?) \*v_\w+, (.+?) v_\w+\)$', f['sig'])
        if not m or m.group(1) not in etypes:
            continue
        elem_t, fn, self_t, key_t, comp_t = m.groups()
        cmp_ = [c for c in calls.get(fn, []) if c in byname and 'operator()' in byname[c]['qualified']]
        if len(cmp_) != 1:
            continue
        ek = etypes[elem_t]
        text += '/* contract of %s, comparator as resolved by clang: %s */\n' % (f['qualified'], byname[cmp_[0]]['qualified'])
        text += '%s* %s(%s* self, %s* key, %s comp)\n{\n  if (WE%d != 0 && WTAB%d == (void*)self && %s(&comp, WE%d, key) == 0) return WE%d;\n  return 0;\n}\n\n' % (elem_t, fn, self_t, key_t, comp_t, ek, ek, cmp_[0], ek, ek)
        skipped.append(fn)
    text += 'static void order_check_all(void) { ' + ' '.join('order_check%d();' % x['k'] for x in info) + ' }\n'
    return text, skipped, info




def harness_for(name, spec, u, info, prop='C01', init='pools();'):
    """two-request harness.  spec: pre (C statements declaring the two requests), call1 / call2 (C expressions), same (C condition),
    checks (list of (C condition over r1, text)), claim (text of the property clause)"""
    t = 'void h_%s(void)\n{\n  %s\n%s' % (name, init, spec.get('pre', ''))
    t += '  __typeof__(%s) r1 = %s;\n' % (spec['call1'], spec['call1'])
    for cond, text in spec.get('checks', []):
        t += '  __CPROVER_assert(%s, "%s/C02: %s");\n' % (cond, prop, text)
    t += ''.join('  W%d = LAST%d; WT%d = LASTT%d;\n' % (x['k'], x['k'], x['k'], x['k']) for x in info)   # whatever the first request entered is now in its table
    t += spec.get('mid', '')
    t += '  __typeof__(%s) r2 = %s;\n' % (spec['call2'], spec['call2'])
    for cond, text in spec.get('post', []):
        t += '  __CPROVER_assert(%s, "%s/C05: %s");\n' % (cond, prop, text)
    t += '  __CPROVER_assert(((void*)r1 == (void*)r2) == (%s), "%s: %s");\n' % (spec['same'], prop, spec['claim'])
    t += ('  IPR_CANARY_POINT();\n}\n\n' if spec['same'] in ('0', '1') else '  if (%s) IPR_CANARY_POINT(); else IPR_CANARY_POINT();\n}\n\n' % spec['same'])
    return t


def order_harness(name, spec, init='pools();'):
    """CMP-ORDER lemma for the tables this constructor uses: three requests into empty tables (each builds a new element from
    its key), then the recorded (element, key) pairs are compared with the comparator clang resolved inside insert."""
    pre, calls = spec['order']
    t = 'void h_order_%s(void)\n{\n  %s\n%s' % (name, init, pre)
    for c in calls:
        t += '  (void)%s;\n' % c
    t += '  order_check_all();\n  __CPROVER_assert(ORDER_CHECKED >= 1 || %s, "CMP-ORDER: three requests to one table were recorded");\n  IPR_CANARY_POINT();\n}\n\n' % spec.get('order_may_skip', '0')
    return t
