"""harness generators shared by several properties"""
import re
from ipv import Undecided


def insert_stubs(u):
    """one contract stub per container<T>::insert instantiation of the unit (DESIGN.md A3): returns (C text, [mangled names], table info)"""
    calls = {c['caller']: c['callees'] for c in u.json['calls']}
    byname = {f['name']: f for f in u.json['functions']}
    text, skipped, info = 'static int ORDER_CHECKED;\n', [], []
    for f in u.json['functions']:
        if not re.search(r'rb_tree::container<.*>::insert$', f['qualified']):
            continue
        m = re.match(r'(.+?) \* (\w+)\((.+?) \*self, (.+?) \*v_key, (.+?) v_comp\)$', f['sig'])
        if not m:
            raise Undecided('cannot parse insert signature: ' + f['sig'][:200])
        elem_t, fn, self_t, key_t, comp_t = m.groups()
        cs = calls.get(fn, [])
        cmp_ = [c for c in cs if c in byname and 'operator()' in byname[c]['qualified']]
        mk = [c for c in cs if c in byname and byname[c]['qualified'].endswith('::make_node')]
        if len(cmp_) != 1 or len(mk) != 1:
            raise Undecided('MUST-FIRE: insert %s: expected one comparator call and one make_node, found %s / %s' % (fn, cmp_, mk))
        k = len(info)
        text += 'static %s* W%d; static %s* LAST%d; static int INS%d;\n#define CMP%d %s\n#define COMP%d_T %s\n' % (elem_t, k, elem_t, k, k, k, cmp_[0], k, comp_t)
        bycopy = key_t.endswith('3RepE') or 'Rep' in key_t.split('_')[-1]
        # ghost record of the first three (element, key) pairs entered, for the CMP-ORDER lemma
        text += 'static %s* RE%d[3]; static %s %sRK%d[3]; static int REC%d;\n' % (elem_t, k, key_t, '' if bycopy else '*', k, k)
        keyref = '&RK%d[%%s]' % k if bycopy else 'RK%d[%%s]' % k
        text += '#define SGN(x) ((x) < 0 ? -1 : (x) > 0 ? 1 : 0)\n' if k == 0 else ''
        text += ('static void order_check%d(void)\n{\n  %s comp; __builtin_memset(&comp, 0, sizeof comp);\n  if (REC%d < 3) return;\n' % (k, comp_t, k)
                 + '  int c00 = CMP%d(&comp, RE%d[0], %s), c01 = CMP%d(&comp, RE%d[0], %s), c10 = CMP%d(&comp, RE%d[1], %s), c12 = CMP%d(&comp, RE%d[1], %s), c02 = CMP%d(&comp, RE%d[0], %s), c21 = CMP%d(&comp, RE%d[2], %s);\n'
                   % (k, k, keyref % 0, k, k, keyref % 1, k, k, keyref % 0, k, k, keyref % 2, k, k, keyref % 2, k, k, keyref % 1)
                 + '  __CPROVER_assert(c00 == 0, "CMP-ORDER: an element compares equal to the key it was built from");\n'
                 + '  __CPROVER_assert(SGN(c01) == -SGN(c10) && SGN(c12) == -SGN(c21), "CMP-ORDER: the comparator is antisymmetric through the key projection");\n'
                 + '  __CPROVER_assert(!(c01 < 0 && c12 < 0) || c02 < 0, "CMP-ORDER: the comparator is transitive");\n'
                 + '  __CPROVER_assert(!(c01 == 0 && c12 == 0) || c02 == 0, "CMP-ORDER: comparing equal is transitive");\n'
                 + '  __CPROVER_assert(!(c01 == 0 && c12 < 0) || c02 < 0, "CMP-ORDER: equal keys are interchangeable");\n  ORDER_CHECKED++;\n}\n')
        text += '/* contract of %s, comparator as resolved by clang: %s */\n' % (f['qualified'], byname[cmp_[0]]['qualified'])
        text += '%s* %s(%s* self, %s* key, %s comp)\n{\n  INS%d++;\n' % (elem_t, fn, self_t, key_t, comp_t, k)
        text += '  __CPROVER_assume(self->__b0.f_count >= 0 && self->__b0.f_count < ((long)1 << 62));\n'
        text += '  if (W%d != 0 && %s(&comp, W%d, key) == 0) return LAST%d = W%d;   /* an equal element exists: returned, nothing added */\n' % (k, cmp_[0], k, k, k)
        text += '  __typeof__(*%s(0, 0))* n = %s(self, key);                    /* otherwise a new element is built from the key */\n' % (mk[0], mk[0])
        text += '  self->__b0.f_count++;\n'
        text += '  __CPROVER_assert(%s(&comp, &n->f_data, key) == 0, "CTOR-KEY: the element built from a key compares equal to that key");\n' % cmp_[0]
        text += '  if (REC%d < 3) { RE%d[REC%d] = &n->f_data; RK%d[REC%d] = %skey; REC%d++; }\n' % (k, k, k, k, k, '*' if bycopy else '', k)
        text += '  return LAST%d = &n->f_data;\n}\n\n' % k
        skipped.append(fn)
        info.append(dict(k=k, fn=fn, table=f['qualified'], cmp=byname[cmp_[0]]['qualified'], elem=elem_t))
    text += 'static void order_check_all(void) { ' + ' '.join('order_check%d();' % x['k'] for x in info) + ' }\n'
    return text, skipped, info


