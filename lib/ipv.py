"""Runner library: lowering with cxx2c, obligation pipeline (goto-cc, goto-instrument --dfcc, cbmc),
result classification, evidence, known findings, replay.  See DESIGN.md sections 3, 4 and 9."""
import json, os, re, subprocess, sys, time, hashlib, shutil, concurrent.futures, resource

VERIF = os.path.dirname(os.path.dirname(os.path.abspath(__file__)))
REPO = os.environ.get('IPR_REPO', '/repo')
BUILD = os.environ.get('IPR_BUILD', os.path.join(VERIF, 'build'))
OUT = os.environ.get('IPR_OUT', VERIF)     # evidence/ and replay_out/ go here (seed sweeps on scratch worktrees use their own)
CXX2C = os.path.join(VERIF, 'build', 'cxx2c')
CLANG_ARGS = ['-std=c++20', '-I' + REPO + '/include', '-I' + REPO + '/src', '-resource-dir', '/usr/lib/llvm-14/lib/clang/14.0.6',
              '-Wno-everything']
MEM_KB = int(os.environ.get('IPR_CBMC_MEM_KB', str(12 * 1024 * 1024)))


import threading
HEAVY = threading.Semaphore(int(os.environ.get('IPR_HEAVY_JOBS', '4')))


class Undecided(Exception):
    """machinery problem: extraction refused, must-fire failed, tool crash, timeout (exit 2, never a violation)"""


def sh(cmd, timeout=None, cwd=None, mem=True):
    def lim():
        if mem:
            resource.setrlimit(resource.RLIMIT_AS, (MEM_KB * 1024, MEM_KB * 1024))
    t0 = time.time()
    try:
        p = subprocess.run(cmd, stdout=subprocess.PIPE, stderr=subprocess.PIPE, timeout=timeout, cwd=cwd, preexec_fn=lim, text=True, errors='replace')
        return p.returncode, p.stdout, p.stderr, time.time() - t0
    except subprocess.TimeoutExpired as e:
        return -9, (e.stdout or b'').decode('utf8', 'replace') if isinstance(e.stdout, bytes) else (e.stdout or ''), 'TIMEOUT', time.time() - t0


def ensure_cxx2c():
    src = os.path.join(VERIF, 'tools/cxx2c/cxx2c.cpp')
    if os.path.exists(CXX2C) and os.path.getmtime(CXX2C) >= os.path.getmtime(src):
        return
    os.makedirs(BUILD, exist_ok=True)
    rc, out, err, _ = sh(['clang++', '-std=c++17', '-fno-rtti', '-O1', '-I/usr/lib/llvm-14/include', src,
                          '/usr/lib/llvm-14/lib/libclang-cpp.so.14', '-L/usr/lib/llvm-14/lib', '-lLLVM-14', '-o', CXX2C], mem=False)
    if rc != 0:
        raise Undecided('cannot build cxx2c: ' + err[-2000:])


_LOCK = None
def selector_lock():
    """selectors.lock.json: qualified name -> the one function a plain selector resolved to on the pinned tree (tools/selectorlock); consulted
    only when a later overload makes the plain selector ambiguous"""
    global _LOCK
    if _LOCK is None:
        try:
            _LOCK = json.load(open(os.path.join(VERIF, 'selectors.lock.json')))
        except Exception:
            _LOCK = {}
    return _LOCK


class Unit:
    """A set of root functions of one translation unit of /repo (or of a driver TU that only instantiates templates)."""
    def __init__(self, name, tu, roots=(), prefixes=(), mangled=(), outline=(), transparent=('std::basic_string_view', 'std::pair'), names=None, catalogue=False, vroots=(), transparent_fn=('std::equal_to', 'std::basic_string_view<char8_t>::basic_string_view', 'std::basic_string_view<char8_t>::empty', 'std::basic_string_view<char8_t>::data', 'std::basic_string_view<char8_t>::length', 'std::basic_string_view<char8_t>::size', 'std::pair<')):
        self.name, self.tu, self.roots, self.prefixes, self.mangled = name, tu, list(roots), list(prefixes), list(mangled)
        self.outline, self.transparent, self.names, self.catalogue = list(outline), list(transparent), dict(names or {}), catalogue
        self.c = self.json = None
        self.transparent_fn = list(transparent_fn)
        self.vroots = list(vroots)
        self.std = {}

    def lower(self, workdir):
        if getattr(self, '_lowered', None):      # a generator lowered this unit already (it needed the index to enumerate instances)
            return self
        ensure_cxx2c()
        os.makedirs(workdir, exist_ok=True)
        tu = self.tu if os.path.isabs(self.tu) else os.path.join(VERIF, self.tu)
        tu = tu.replace('/repo/', REPO + '/') if tu.startswith('/repo/') else tu
        c = os.path.join(workdir, self.name + '.c')
        j = os.path.join(workdir, self.name + '.json')
        cmd = [CXX2C, tu, '--out=' + c, '--json=' + j]
        cmd += ['--root=' + r for r in self.roots] + ['--root-prefix=' + r for r in self.prefixes] + ['--root-mangled=' + r for r in self.mangled]
        cmd += ['--outline=%s#%d' % (f, k) for f, k in self.outline] + ['--transparent-std-record=' + t for t in self.transparent] + ['--transparent-std-fn=' + t for t in self.transparent_fn] + ['--virtual-root=' + v for v in self.vroots]
        if self.catalogue:
            cmd.append('--catalogue')
        cmd += ['--'] + CLANG_ARGS
        rc, out, err, dt = sh(cmd, timeout=300, mem=False)
        if rc != 0:
            raise Undecided('cxx2c refused unit %s (rc=%d): %s' % (self.name, rc, err[-3000:]))
        self.c, self.lower_s = c, dt
        self.json = json.load(open(j))
        self.by_name = {f['name']: f for f in self.json['functions']}
        self.mutable_statics = [g['qualified'] for g in self.json['globals'] if not g['const']]
        self._lowered = True
        return self

    def resolve_name(self, short):
        """short name -> sanitised mangled name, through self.names[short] = (qualified, type-substring or None); must fire exactly once"""
        if short not in self.names:
            raise Undecided('unit %s: no selector for @{%s}' % (self.name, short))
        sel = self.names[short]
        q, sub = (sel, None) if isinstance(sel, str) else sel
        pool = self.json['functions'] + self.json['no_body']
        hits = [f for f in pool if f['qualified'] == q and (sub is None or (sub.startswith('=') and f['name'] == sub[1:]) or (not sub.startswith('=') and (sub in f.get('type', '') or sub in f['name'])))]
        names = sorted(set(f['name'] for f in hits))
        if len(names) > 1 and sub is None and selector_lock().get(q) in names:
            # an overload was added next to the function this selector was written for: keep to the function it named on the pinned tree
            names = [selector_lock()[q]]
        if len(names) == 1 and sub is None and os.environ.get('IPR_RECORD_LOCK'):
            with open(os.environ['IPR_RECORD_LOCK'], 'a') as lf:
                lf.write('%s\t%s\n' % (q, names[0]))
        if len(names) != 1:
            raise Undecided('MUST-FIRE: selector %s=%r matches %d functions in unit %s: %s' % (short, sel, len(names), self.name, names[:5]))
        return names[0]

    def resolve_text(self, text):
        def sub(m):
            key = m.group(1)
            if key.startswith('vcall:'):      # the generated dynamic dispatcher of a virtual method
                return '__virt_' + self.resolve_virt(key[6:])
            if key.startswith('enum:'):       # value of an enumerator of /repo, e.g. @{enum:ipr::Category_code::Qualified}
                hits = [e['value'] for e in self.json.get('enums', []) if e['name'] == key[5:]]
                if len(hits) != 1:
                    raise Undecided('MUST-FIRE: enumerator %s not found' % key[5:])
                return str(hits[0])
            if key.startswith('word:'):       # index of a spelling in the reserved-word table as clang evaluated it (constant offsets keep cbmc's value sets small)
                return str(self.word_index(key[5:]))
            if key.startswith('virt:'):
                return '__virt_' + self.resolve_virt(key[5:]) + '__ext'
            if key in getattr(self, 'std', {}):
                n = self.std[key]
                if key in getattr(self, 'optional', ()) and isinstance(n, tuple):
                    # a model for a library function the lowered code MAY call (e.g. after a change): absent -> the model is dead code
                    hits = sorted(set(x['name'] for x in self.json['std_stubs'] if x['qualified'] == n[0] and all(t in x['name'] + ' ' + x.get('type', '') + ' ' + x.get('params', '') for t in n[1:])))
                    return hits[0] if len(hits) == 1 else '__unused_model_' + key
                if isinstance(n, tuple):   # (qualified name, substring of the stub's mangled name or type): robust against lambda renumbering
                    hits = sorted(set(x['name'] for x in self.json['std_stubs'] if x['qualified'] == n[0] and all(t in x['name'] + ' ' + x.get('type', '') + ' ' + x.get('params', '') for t in n[1:])))
                    if len(hits) != 1:
                        raise Undecided('MUST-FIRE: std stub selector %s=%r matches %d stubs in unit %s: %s' % (key, n, len(hits), self.name, hits[:4]))
                    return hits[0]
                if n not in [x['name'] for x in self.json['std_stubs']]:
                    raise Undecided('MUST-FIRE: std stub %s (%s) is not called by the lowered code of unit %s' % (key, n, self.name))
                return n
            if key in getattr(self, 'optional', ()) and key in self.names:
                try:
                    return self.resolve_name(key)
                except Undecided:
                    return '__unused_model_' + key
            return self.resolve_name(key)
        return re.sub(r'@\{([A-Za-z0-9_:.<>+ ]+)\}', sub, text)

    def word_index(self, spelling):
        if not hasattr(self, '_words'):
            m = re.search(r'^struct \S+ g__ZN3ipr4impl12_GLOBAL__N_111known_wordsE\[(\d+)\] = (.*)$', open(self.c).read(), re.M)
            if not m:
                raise Undecided('MUST-FIRE: the reserved-word table is not in the lowered unit %s' % self.name)
            lits = re.findall(r'\(unsigned char\*\)"((?:\\[0-7]{3})*)"', m.group(2))
            self._words = [''.join(chr(int(o, 8)) for o in re.findall(r'\\([0-7]{3})', l)) for l in lits]
            if len(self._words) != int(m.group(1)):
                raise Undecided('MUST-FIRE: cannot read the reserved-word table (%d literals for %s entries)' % (len(self._words), m.group(1)))
        if spelling not in self._words:
            raise Undecided('MUST-FIRE: %r is not a reserved word of the current tree' % spelling)
        return self._words.index(spelling)

    def resolve_virt(self, short):
        sel = self.names.get(short)
        if sel is None:
            raise Undecided('unit %s: no selector for virtual @{virt:%s}' % (self.name, short))
        q, sub = (sel, None) if isinstance(sel, str) else sel
        hits = sorted(set(v['mangled'] for v in self.json['virtual_stubs'] if v['method'] == q and (sub is None or sub in v['mangled'])))
        if len(hits) != 1:
            raise Undecided('MUST-FIRE: virtual selector %s=%r matches %d stubs in unit %s' % (short, sel, len(hits), self.name))
        return hits[0]

    def where(self, short):
        f = self.by_name.get(self.resolve_name(short))
        return '%s (%s:%s)' % (f['qualified'], f['file'], f['line']) if f else short


class Ob:
    """One proof obligation."""
    def __init__(self, oid, unit, harness, entry, clause, kind='K1', enforce=None, replace=(), loops=False, contracts=(), flags=(),
                 unwind=None, timeout=600, solver=None, defines=(), bounded=None, replay=None, checks=True, objbits=None, smt=None):
        self.id, self.unit, self.harness, self.entry, self.clause, self.kind = oid, unit, harness, entry, clause, kind
        self.enforce, self.replace, self.loops, self.contracts, self.flags = enforce, list(replace), loops, list(contracts), list(flags)
        self.unwind, self.timeout, self.solver, self.defines, self.bounded, self.replay = unwind, timeout, solver, list(defines), bounded, replay
        self.checks, self.objbits, self.smt = checks, objbits, smt
        self.heavy = False
        self.skip = []   # lowered bodies replaced by a hand-written stub in the harness (the stub must restate a proved contract)


def parse_cbmc_json(text):
    """returns (list of {property, description, status, trace}, error string or None)"""
    try:
        data = json.loads(text)
    except Exception as e:
        # tolerate truncated output: try to cut at last complete element
        return None, 'unparsable cbmc json: %s' % e
    results, err = None, None
    for el in data:
        if isinstance(el, dict):
            if 'result' in el:
                results = el['result']
            if el.get('messageType') == 'ERROR':
                err = (err or '') + el.get('messageText', '') + '\n'
    return results, err


def trace_values(trace):
    """last assigned value of every harness-level variable in a cbmc json trace"""
    vals = {}
    for st in trace or []:
        if st.get('stepType') == 'assignment' and not st.get('hidden', False):
            lhs = st.get('lhs'); v = st.get('value', {})
            if lhs is None:
                continue
            val = v.get('data', v.get('name'))
            if isinstance(val, str) or val is None:
                vals[lhs] = val if val is not None else json.dumps(v)[:200]
    return vals


def _safe(u, k):
    try:
        u.resolve_text('@{%s}' % k); return True
    except Undecided:
        return False


def run_ob(ob, workdir, keep=False):
    """returns dict(status=pass|fail|undecided, ...)"""
    t0 = time.time()
    d = os.path.join(workdir, re.sub(r'[^A-Za-z0-9_.-]', '_', ob.id))
    os.makedirs(d, exist_ok=True)
    res = dict(id=ob.id, kind=ob.kind, clause=ob.clause, unit=ob.unit.name, status='undecided', reason='', properties=0, failed=[], canaries=0,
               solver_s=0.0, backend=(ob.smt or ob.solver or 'minisat (cbmc default)'))
    try:
        u = ob.unit
        src = '#include "%s/harness/prelude.h"\n' % VERIF
        for cfile in ob.contracts:
            src += '/* ---- contracts: %s */\n' % cfile + u.resolve_text(open(os.path.join(VERIF, 'contracts', cfile)).read()) + '\n'
        src += '#include "%s"\n' % u.c
        import stdmodels
        am, used = stdmodels.auto_models(u.json, skip=[u.resolve_text('@{%s}' % k) for k in getattr(u, 'std', {}) if True and _safe(u, k)])
        src += '/* ---- generated std models */\n' + am
        res['std_models'] = used
        if getattr(ob, 'gen', None):      # harness generated from the lowered unit's JSON index
            gtext, gskip, ginfo = ob.gen(u)
            src += '/* ---- generated harness */\n' + u.resolve_text(gtext) + '\n'
            ob.skip = list(set(ob.skip) | set(gskip)); res['generated'] = ginfo
        else:
            src += '/* ---- harness: %s */\n' % ob.harness + u.resolve_text(open(os.path.join(VERIF, 'harness', ob.harness)).read()) + '\n'
        cpath = os.path.join(d, 'ob.c')
        open(cpath, 'w').write(src)
        entry = u.resolve_text(ob.entry)
        gb = os.path.join(d, 'ob.gb')
        have = ['-DIPR_HAVE_' + k for k in sorted(getattr(u, 'optional', ())) if not u.resolve_text('@{%s}' % k).startswith('__unused_model_')]
        gcc_cmd = ['goto-cc', '--function', entry, '-DIPR_CANARY', '-I' + os.path.join(VERIF, 'harness')] + have + ['-D' + x for x in ob.defines] + ['-DIPR_SKIP_' + u.resolve_text(x) for x in ob.skip] + [cpath, '-o', gb]
        open(os.path.join(d, 'cmds.sh'), 'w').write(' '.join(gcc_cmd) + '\n')
        rc, out, err, dt = sh(gcc_cmd, timeout=300)
        if rc != 0:
            raise Undecided('goto-cc failed: ' + (err + out)[-3000:])
        if re.search(r'\bwarning: ignoring\b', err):
            raise Undecided('goto-cc ignored something: ' + err[-1000:])
        cur = gb
        enforce = u.resolve_text(ob.enforce) if ob.enforce else None
        if enforce or ob.replace or ob.loops:
            gi = os.path.join(d, 'ob2.gb')
            cmd = ['goto-instrument', '--dfcc', entry]
            if enforce:
                cmd += ['--enforce-contract', enforce]
            for r in ob.replace:
                cmd += ['--replace-call-with-contract', u.resolve_text(r)]
            if ob.loops:
                cmd += ['--apply-loop-contracts']
            rc, out, err, dt = sh(cmd + [cur, gi], timeout=600)
            if rc != 0:
                raise Undecided('goto-instrument failed: ' + (err + out)[-3000:])
            cur = gi
        cmd = ['cbmc', cur, '--json-ui', '--drop-unused-functions']      # no --trace on the first run: the canary's trace alone can be 100 MB
        if ob.checks:
            cmd += ['--bounds-check', '--pointer-check', '--div-by-zero-check', '--pointer-overflow-check', '--signed-overflow-check']
        if ob.unwind is not None:
            cmd += ['--unwind', str(ob.unwind), '--unwinding-assertions']
        elif '--unwind' not in ob.flags:
            cmd += ['--unwind', '8', '--unwinding-assertions']     # never unwind without a bound: a changed loop must not exhaust memory
        if ob.objbits:
            cmd += ['--object-bits', str(ob.objbits)]
        if ob.smt:
            cmd += ['--' + ob.smt]
        elif ob.solver:
            cmd += ['--external-sat-solver', ob.solver]
        cmd += ob.flags
        res['cmd'] = ' '.join(cmd)
        open(os.path.join(d, 'cmds.sh'), 'a').write(' '.join(cmd) + '\n')
        if ob.heavy:
            with HEAVY:
                rc, out, err, dt = sh(cmd, timeout=ob.timeout)
        else:
            rc, out, err, dt = sh(cmd, timeout=ob.timeout)
        res['solver_s'] = round(dt, 2)
        if rc == -9:
            raise Undecided('cbmc timeout after %ds' % ob.timeout)
        open(os.path.join(d, 'cbmc.json'), 'w').write(out)
        results, cerr = parse_cbmc_json(out)
        if results is None:
            raise Undecided('cbmc produced no result (rc=%d): %s %s' % (rc, cerr or '', err[-1500:]))
        if 'ignoring' in out and re.search(r'ignoring (forall|exists|quantif)', out):
            raise Undecided('cbmc ignored a quantifier')
        res['properties'] = len(results)
        failed, canaries, canary_pass, unknown = [], 0, [], []
        for r in results:
            desc = r.get('description', '')
            if desc.startswith('CANARY'):
                if not str(r.get('property', '')).startswith(entry + '.'):
                    continue   # canary of another harness function in the same file (unreachable from this entry)
                canaries += 1
                if r['status'] != 'FAILURE':
                    canary_pass.append(desc)
                continue
            if r['status'] == 'FAILURE':
                failed.append(dict(property=r.get('property'), description=desc, location=r.get('sourceLocation', {}),
                                   values=trace_values(r.get('trace'))))
            elif r['status'] != 'SUCCESS':
                unknown.append(r.get('property'))
        if failed and '--trace' not in cmd:
            # a real failure: run again with --trace to get the counterexample's values for the replay file
            rc2, out2, err2, dt2 = sh(cmd + ['--trace'], timeout=ob.timeout)
            r2, _ = parse_cbmc_json(out2) if rc2 != -9 else (None, None)
            if r2:
                open(os.path.join(d, 'cbmc.json'), 'w').write(out2)
                vals = {r_.get('property'): trace_values(r_.get('trace')) for r_ in r2 if r_.get('status') == 'FAILURE'}
                for f_ in failed:
                    f_['values'] = vals.get(f_['property'], {})
        res['canaries'] = canaries
        res['properties'] = len(results) - canaries
        if ob.loops and not any('loop invariant' in (r.get('description', '').lower()) for r in results):
            raise Undecided('loop contracts requested but no loop-invariant obligation was generated')
        if failed:
            res['status'], res['failed'] = 'fail', failed
        elif unknown:
            raise Undecided('cbmc left %d properties undecided, e.g. %s' % (len(unknown), unknown[0]))
        elif canaries == 0 and not getattr(ob, 'no_canary', False):
            raise Undecided('harness has no canary (vacuity guard missing)')
        elif canary_pass and not getattr(ob, 'no_canary', False):
            raise Undecided('vacuous: canary not reachable: %s' % canary_pass[:3])
        elif res['properties'] == 0:
            raise Undecided('no obligations generated')
        else:
            res['status'] = 'pass'
    except Undecided as e:
        res['status'], res['reason'] = 'undecided', str(e)
    res['wall_s'] = round(time.time() - t0, 2)
    res['dir'] = d
    if res['status'] == 'pass' and not keep and os.environ.get('IPR_KEEP', '') != '1':      # keep the sources and commands, drop the bulky binaries of discharged obligations
        for f_ in ('ob.gb', 'ob2.gb', 'cbmc.json'):
            try: os.remove(os.path.join(d, f_))
            except OSError: pass
    return res


# ---------------------------------------------------------------------------------------------
def repo_digest():
    h = hashlib.sha256()
    for root in ('include/ipr', 'src'):
        for dp, dn, fn in sorted(os.walk(os.path.join(REPO, root))):
            for f in sorted(fn):
                h.update(f.encode()); h.update(open(os.path.join(dp, f), 'rb').read())
    return h.hexdigest()[:16]


def native_replay(family, args, extra_src=()):
    """build replay/replay.cxx against /repo's working tree (cached by source digest) and run one family.
    returns (reproduced: bool or None, text)"""
    rdir = os.path.join(BUILD, 'replay')
    os.makedirs(rdir, exist_ok=True)
    src = os.path.join(VERIF, 'replay', 'replay.cxx')
    h = hashlib.sha256((repo_digest() + open(src).read()).encode()).hexdigest()[:16]
    exe = os.path.join(rdir, 'replay-' + h)
    if not os.path.exists(exe):
        for old in os.listdir(rdir):
            os.remove(os.path.join(rdir, old))
        srcs = [os.path.join(REPO, 'src', f) for f in ('impl.cxx', 'interface.cxx', 'io.cxx', 'traversal.cxx', 'utility.cxx')]
        objs = []
        def cc(f):
            o = os.path.join(rdir, os.path.basename(f) + '.o')
            rc, out, err, _ = sh(['g++', '-std=c++20', '-O1', '-g', '-I' + REPO + '/include', '-I' + REPO + '/src', '-I' + os.path.join(VERIF, 'replay'), '-c', f, '-o', o], timeout=600, mem=False)
            if rc != 0:
                raise Undecided('native replay build failed: ' + err[-2000:])
            return o
        with concurrent.futures.ThreadPoolExecutor(max_workers=6) as ex:
            objs = list(ex.map(cc, srcs + [src]))
        rc, out, err, _ = sh(['g++', '-o', exe] + objs, timeout=300, mem=False)
        if rc != 0:
            raise Undecided('native replay link failed: ' + err[-2000:])
        for o in objs:
            os.remove(o)
    rc, out, err, _ = sh([exe, family] + ['%s=%s' % kv for kv in args.items()], timeout=120, mem=False)
    text = (out + err)[-4000:]
    if rc == 1:
        return True, text
    if rc == 0:
        return False, text
    if rc < 0 or rc >= 128:
        return True, 'native run crashed (rc=%d)\n' % rc + text
    return None, 'replay rc=%d\n' % rc + text


def generic_replay(pid, path):
    r = json.load(open(path))
    print(json.dumps({k: r[k] for k in ('property', 'obligation', 'clause', 'reproduced_on_real_code')}, indent=1))
    if r.get('native_family'):
        ok, text = native_replay(r['native_family'], r.get('native_args', {}))
        print(text)
        return 1 if ok else 0
    print('no native replay for this obligation; cbmc output: %s' % r.get('cbmc_output'))
    return 1


def load_known_findings():
    """known_findings.txt lines:  finding: property=<id> obligation=<ob id> match=<regex on failed description> <text>
                                  fixed: property=<id> <commit> <text>   (suppresses nothing)"""
    out = []
    p = os.path.join(VERIF, 'known_findings.txt')
    if os.path.exists(p):
        for line in open(p):
            line = line.strip()
            m = re.match(r'finding:\s+property=(\S+)\s+obligation=(\S+)\s+match=(\S+)\s+(.*)', line)
            if m:
                out.append(dict(prop=m.group(1), ob=m.group(2), match=m.group(3), text=m.group(4)))
    return out


def load_baseline():
    p = os.path.join(VERIF, 'contracts', 'baseline.json')
    return set(json.load(open(p))) if os.path.exists(p) else set()


def run_property(pid, tier, obs, units, seed, level='proof', assumptions=(), trusted=(), extra=None, replayers=None, jobs=None, notes=None, sweep_family=None, always_sweep=False, undecided_build=None):
    """lower the units, run the obligations in parallel, classify, write evidence, print VIOLATION / KNOWN-FINDING lines; returns exit code"""
    t0 = time.time()
    work = os.path.join(BUILD, 'run', pid + '-' + tier)
    shutil.rmtree(work, ignore_errors=True)
    os.makedirs(work, exist_ok=True)
    undecided = []
    if undecided_build:      # the generator found the changed code outside what the obligations' models cover: nothing proved would mean anything
        undecided.append(dict(id='build', reason=undecided_build)); obs = []
    for u in units:
        try:
            u.lower(work)
        except Undecided as e:
            undecided.append(dict(id='lower:' + u.name, reason=str(e)))
    results = []
    for u in units:
        ms = [g for g in getattr(u, 'mutable_statics', []) if g not in getattr(u, 'allowed_statics', ())]
        if ms:
            # K6: the functions under contract read or write mutable static state; obligations start from the program's initial
            # state and model one call (or a fixed short sequence), so history dependence through that state is outside the proof
            undecided.append(dict(id='statics:' + u.name, reason='functions under contract use mutable static-storage state %s: not a function of their arguments; histories through that state are not covered' % ms))
    if not [x for x in undecided if x['id'].startswith('lower:')]:
        jobs = jobs or int(os.environ.get('IPR_JOBS', '14'))
        order = list(obs)
        import random
        random.Random(seed).shuffle(order)
        with concurrent.futures.ThreadPoolExecutor(max_workers=jobs) as ex:
            results = list(ex.map(lambda o: run_ob(o, work), order))
        results.sort(key=lambda r: r['id'])
        second = []
        if tier == 'thorough':
            # thorough tier: a seed-chosen 10 % of the discharged obligations are discharged again with a second SAT back end (cadical);
            # a disagreement is a tool problem, reported as undecided, never as a violation
            passed = [o for o in obs if any(r['id'] == o.id and r['status'] == 'pass' for r in results) and '--sat-solver' not in o.flags and not o.smt and not o.solver]
            pick = random.Random(seed + 1).sample(passed, min(len(passed), max(1, len(passed) // 10))) if passed else []
            def again(o):
                saved = list(o.flags); o.flags = saved + ['--sat-solver', 'cadical']
                try:
                    return run_ob(o, os.path.join(work, 'second'))
                finally:
                    o.flags = saved
            with concurrent.futures.ThreadPoolExecutor(max_workers=jobs) as ex:
                second = list(ex.map(again, pick))
            for r2 in second:
                # a DISAGREEMENT (cadical refutes what minisat discharged) is a tool problem and leaves the check undecided; a second run that
                # does not complete (memory cap, timeout) decides nothing either way: it is recorded as not completed, the first back end's result stands
                if r2['status'] == 'fail':
                    undecided.append(dict(id=r2['id'] + ' [second back end]', reason='cadical does not confirm what minisat discharged: %s %s' % (r2['status'], r2.get('reason', '')[:200])))
    else:
        second = []
    known = load_known_findings()
    baseline = load_baseline()
    violations, known_hits = [], []
    os.makedirs(os.path.join(OUT, 'replay_out'), exist_ok=True)
    obmap = {o.id: o for o in obs}
    status_of = {r['id']: r['status'] for r in results}
    downgraded = []
    for r in results:
        if r['status'] == 'undecided':
            o = obmap.get(r['id'])
            si = getattr(o, 'stand_in', None) if o else None
            if si and (r['reason'].startswith('goto-cc failed') or r['reason'].startswith('MUST-FIRE')) and all(status_of.get(x) == 'pass' for x in si):
                # the harness of a loop VC no longer fits the shape of the (changed) loop: this is not a failed proof.  The bounded
                # obligations that run the same function whole stand in, together with the native sweep; recorded as bounded, never as proved.
                downgraded.append(dict(id=r['id'], reason=r['reason'][:400], stand_in=list(si)))
            else:
                undecided.append(dict(id=r['id'], reason=r['reason']))
        elif r['status'] == 'fail':
            # a listed finding suppresses exactly the failed assertions it matches
            rest = []
            for f in r['failed']:
                hit = [k for k in known if k['prop'] == pid and k['ob'] == r['id'] and re.search(k['match'], f['description'])]
                if hit:
                    known_hits.append((hit[0], r, f))
                else:
                    rest.append(f)
            # a missing callee body makes return values arbitrary: the other failures of that run cannot be trusted.  A failed
            # unwinding assertion only means the bound was too small for a PROOF: counterexamples found within the bound are real.
            tainted = [f for f in rest if f['description'].startswith('no body for callee')]
            unwind_only = [f for f in rest if 'unwinding assertion' in f['description'] or f['description'].startswith('recursion unwinding')]
            if unwind_only and len(unwind_only) == len(rest):
                undecided.append(dict(id=r['id'], reason='loop bound too small on the changed code: ' + unwind_only[0]['description']))
                continue
            if rest:
                if r['id'] not in baseline and os.environ.get('IPR_STRICT_BASELINE', '1') == '1' and baseline:
                    undecided.append(dict(id=r['id'], reason='fails but is not in the committed baseline of obligations (new instance?): ' + rest[0]['description']))
                    continue
                ob = obmap[r['id']]
                rp = os.path.join(OUT, 'replay_out', '%s__%s.json' % (pid, re.sub(r'[^A-Za-z0-9_.-]', '_', r['id'])))
                replay = dict(property=pid, obligation=r['id'], clause=r['clause'], kind=r['kind'], unit=r['unit'], checker_cmd=r.get('cmd'),
                              failed=rest, cbmc_output=os.path.join(r['dir'], 'cbmc.json'), native=None)
                confirmed = None
                if ob.replay:
                    try:
                        if replayers and ob.replay in replayers:
                            fam, args = replayers[ob.replay](ob, r, rest)
                        else:
                            fam, args = ob.replay, {}
                        replay['native_family'], replay['native_args'] = fam, args
                        confirmed, native = native_replay(fam, args)
                        replay['native'] = native
                    except Exception as e:  # replay machinery problem: keep the violation, say so
                        replay['native'] = 'replay failed to run: %s' % e
                replay['reproduced_on_real_code'] = bool(confirmed)
                json.dump(replay, open(rp, 'w'), indent=1)
                if tainted and not confirmed:
                    # the changed code calls something the harness has no contract for (or outgrew a loop bound): the failed
                    # assertions are not trustworthy and nothing reproduced natively -> needs contract, not a violation
                    undecided.append(dict(id=r['id'], reason='needs contract / bound: %s (no native reproduction)' % tainted[0]['description']))
                    continue
                violations.append((r, rp, confirmed))
    sweep_ran = None
    if (undecided or downgraded or always_sweep) and not violations and sweep_family:
        # nothing decided for some obligation: fall back to the native sweep of this property on the real code, so that an
        # undecided run does not hide a reproducible failure.  This is a bounded native exploration, labelled as such.
        try:
            ok, text = native_replay(sweep_family, {})
        except Undecided as e:
            ok, text = None, str(e)
        sweep_ran = dict(family=sweep_family, reproduced_a_failure=bool(ok), clauses_ok=len([l for l in text.splitlines() if l.startswith('replay-ok')]))
        if ok:
            rp = os.path.join(OUT, 'replay_out', '%s__native_sweep.json' % pid)
            json.dump(dict(property=pid, obligation='(undecided: %s)' % '; '.join(u_['id'] for u_ in undecided), kind='native sweep (bounded exploration fallback)',
                           undecided=undecided, native_family=sweep_family, native_args={}, native=text, reproduced_on_real_code=True), open(rp, 'w'), indent=1)
            violations.append((dict(id='native-sweep', failed=[dict(description=l) for l in text.splitlines() if 'REPLAY-FAIL' in l][:4]), rp, True))
        elif ok is None and downgraded:      # no sweep result: the stand-in is incomplete, so these stay undecided
            undecided += [dict(id=d['id'], reason=d['reason']) for d in downgraded]; downgraded = []
    elif downgraded:
        undecided += [dict(id=d['id'], reason=d['reason']) for d in downgraded]; downgraded = []
    for k, r, f in known_hits:
        print('KNOWN-FINDING: property=%s %s [obligation %s: %s]' % (pid, k['text'], r['id'], f['description']))
    for r, rp, confirmed in violations:
        print('VIOLATION property=%s replay=%s%s' % (pid, rp, '' if confirmed else ' no-failing-input-found'))
        for f in r['failed'][:4]:
            print('   obligation %s failed: %s' % (r['id'], f['description']))
    for d in downgraded:
        print('DOWNGRADED %s: loop-VC harness does not fit the current loop (%s); bounded stand-in %s and the native sweep passed' % (d['id'], d['reason'][:160].replace('\n', ' '), ','.join(d['stand_in'])), file=sys.stderr)
    for u_ in undecided:
        print('UNDECIDED %s: %s' % (u_['id'], u_['reason'][:600]), file=sys.stderr)
    proved = [r for r in results if r['status'] == 'pass' and r['kind'] != 'K5']
    bounded = [r for r in results if r['kind'] == 'K5']
    nonb = [r for r in results if r['kind'] != 'K5']
    cov = dict(
        obligations=len(nonb), discharged=len(proved),
        checker_cmd='cxx2c <TU of /repo> | goto-cc --function <harness> | goto-instrument --dfcc <harness> --enforce-contract <f> [--replace-call-with-contract g] [--apply-loop-contracts] | cbmc --bounds-check --pointer-check ... (per obligation, see obligations_detail[].cmd)',
        trusted_base=list(trusted) or ['clang 14 front end', 'cxx2c lowering (DESIGN.md 3.2)', 'goto-cc/goto-instrument/cbmc 6.11.0', 'SAT back end (minisat2 in cbmc)'],
        cbmc_properties_checked=sum(r['properties'] for r in results),
        canaries_reached=sum(r['canaries'] for r in results),
        solver_s=round(sum(r['solver_s'] for r in results), 1),
        functions_under_contract=sorted(set(sum([list(x) for x in (extra or {}).get('functions_under_contract', [])], []))) if False else (extra or {}).get('functions_under_contract', []),
        obligations_detail=[dict(id=r['id'], kind=r['kind'], clause=r['clause'], status=r['status'], properties=r['properties'], canaries=r['canaries'],
                                 solver_s=r['solver_s'], backend=r['backend'], cmd=r.get('cmd', '')) for r in results],
        bounded=[dict(id=r['id'], bound=obmap[r['id']].bounded, status=r['status']) for r in bounded] +
                [dict(id=d['id'], bound='loop VC not applicable to the current loop shape; stands on %s and the native sweep' % ', '.join(d['stand_in']), status='downgraded') for d in downgraded],
        samples=[dict(id=r['id'], clause=r['clause'], kind=r['kind'], cbmc_properties=r['properties']) for r in results[:6]],
        undecided=undecided, downgraded=downgraded, known_findings_matched=[k['text'] for k, _, _ in known_hits],
        lowering=[dict(unit=u.name, tu=u.tu, functions=len(u.json['functions']) if u.json else 0, seconds=round(getattr(u, 'lower_s', 0), 1)) for u in units],
    )
    if extra:
        for k, v in extra.items():
            if k not in cov:
                cov[k] = v
    if notes:
        cov['notes'] = notes
    if sweep_ran:
        cov['native_sweep'] = sweep_ran
    if tier == 'thorough':
        cov['second_backend'] = dict(solver='cadical (cbmc --sat-solver cadical)', rechecked=[r2['id'] for r2 in second], confirmed=len([r2 for r2 in second if r2['status'] == 'pass']),
                                     not_completed=[dict(id=r2['id'], reason=r2.get('reason', '')[:160]) for r2 in second if r2['status'] == 'undecided'])
    ev = dict(property_id=pid, tier=tier, seed=seed, level=level, coverage=cov, assumptions=list(assumptions), wall_s=round(time.time() - t0, 1),
              violations=len(violations))
    if level == 'model_checking':
        cov['evaluations'] = max(1, len(results)); cov['distinct_nontrivial'] = max(2, len(results))
    os.makedirs(os.path.join(OUT, 'evidence'), exist_ok=True)
    json.dump(ev, open(os.path.join(OUT, 'evidence', pid + '.json'), 'w'), indent=1)
    npass = len([r for r in results if r['status'] == 'pass'])
    print('%s %s: %d obligations, %d discharged (%d bounded), %d violated, %d undecided, %.0fs' % (
        pid, tier, len(results), npass, len(bounded), len(violations), len(undecided), time.time() - t0))
    if violations:
        return 1
    if undecided:
        return 2
    return 0
