"""Generated factory drivers shared by C02, C05, C06, C09, C12, C14.

The factories, the interface accessors and the visitor hooks are ENUMERATED from the class catalogue cxx2c reads off the clang AST of
the current /repo (so added factories create new obligations and removed ones disappear).  For each factory a small C++ wrapper is
generated, written against the INTERFACE classes only: it calls the real factory with the harness's operands and compares what the
node reports with what was given.  The wrappers are the oracle (rules below + explicit table for the irregular factories); the
verified text is what cxx2c lowers from them: the real factory body, the make(...).with_type helper, stable_farm::make, the
constructor chain clang selected inside emplace_front, and the real final overriders reached through dynamic dispatch.

A generated wrapper that clang rejects (the rule does not fit that factory's interface) is dropped, counted and named in the
evidence as not covered -- never silently."""
import os, re, json, subprocess, hashlib
import ipv
from ipv import Unit, Ob, Undecided, VERIF, REPO

FACTORY_CLASSES = ['ipr::impl::expr_factory', 'ipr::impl::stmt_factory', 'ipr::impl::dir_factory', 'ipr::impl::type_factory', 'ipr::impl::attr_factory',
                   'ipr::impl::capture_spec_factory', 'ipr::cxx_form::impl::form_factory', 'ipr::impl::Lexicon']
CAPTURES = ('default_capture', 'implicit_object_capture', 'enclosing_local_capture', 'binding_capture', 'expansion_capture')


def catalogue(workdir):
    """pass 1: the class catalogue of src/impl.cxx (records of namespace ipr with bases, methods, fully qualified types)"""
    u = Unit('catalogue', '/repo/src/impl.cxx', roots=['ipr::String::empty_string'], catalogue=True)
    u.lower(workdir)
    return {r['name']: r for r in u.json['catalogue']['records']}


def factories(records, classes=FACTORY_CLASSES):
    out = []
    for c in classes:
        if c not in records:
            raise Undecided('MUST-FIRE: factory class %s is not in the catalogue' % c)
        for m in records[c]['methods']:
            if m['access'] != 'public' or m['static'] or m['deleted']:
                continue
            if not (m['name'].startswith('make_') or m['name'] in CAPTURES):
                continue
            out.append(dict(cls=c, name=m['name'], ret=m['ret'], params=m['params'], mangled=m['mangled'], defaults=m['defaults'], ret_canon=m['ret_canon'], params_canon=m['params_canon']))
    # stable short ids: name, plus an ordinal among overloads (ordered by mangled name)
    byname = {}
    for f in sorted(out, key=lambda f: (f['cls'], f['name'], f['mangled'])):
        k = (f['cls'], f['name']); byname.setdefault(k, []).append(f)
    for (c, n), fs in byname.items():
        for i, f in enumerate(fs):
            f['id'] = n + ('' if len(fs) == 1 else '.%d' % i)
            f['cid'] = re.sub(r'\W', '_', c.split('::')[-1] + '__' + f['id'])
    return sorted(out, key=lambda f: (f['cls'], f['id']))


def bases_of(records, name, seen=None):
    """transitive bases, depth first, bases before the class itself (declaration order of accessors follows the hierarchy)"""
    seen = seen if seen is not None else []
    r = records.get(name)
    if not r:
        return seen
    for b in r['bases']:
        bases_of(records, b, seen)
    if name not in seen:
        seen.append(name)
    return seen


def pointee(t):
    return re.sub(r'^const ', '', re.sub(r'\s*[*&]$', '', t.strip())).strip()


def interface_of(records, impl):
    """the interface class a client sees for a node of implementation class `impl`: the Interface typedef the implementation
    inherits (impl::Node<T>), followed through implementation-side adaptors (impl::Stmt<T>, impl::Expr<T>, ...) until a class
    outside the implementation namespaces is reached; else the nearest polymorphic base outside them; else the class itself"""
    cur = impl
    for _ in range(8):
        chain = bases_of(records, cur)
        t = None
        for n in reversed(chain):
            if records.get(n, {}).get('interface') and records[n]['interface'] != cur:
                t = records[n]['interface']; break
        if t is None:
            break
        cur = t
        if '::impl::' not in cur:
            return cur
    if '::impl::' not in cur:
        return cur
    outside = [n for n in bases_of(records, cur) if '::impl::' not in n and n in records and records[n]['polymorphic'] and not n.startswith('ipr::util::')]
    leafy = [n for n in outside if re.match(r'^ipr::(cxx_form::)?[A-Za-z_]\w*(::\w+)?$', n)]
    return (leafy or outside or [cur])[-1]


def accessors(records, iface):
    """public const parameterless virtual member functions of the interface and its bases, in hierarchy/declaration order"""
    out, seen = [], set()
    for n in bases_of(records, iface):
        for m in records[n]['methods']:
            if m['virtual'] and m['const'] and not m['params'] and m['access'] == 'public' and m['name'] not in seen and not m['name'].startswith('operator'):
                seen.add(m['name']); out.append(dict(name=m['name'], ret=m['ret_canon'], owner=n))
    return out


def tkey(t):
    """type key used to match factory parameters with accessors: the node class for references and Optionals, the type itself for values"""
    t = t.strip()
    m = re.match(r'^ipr::Optional<(.+)>$', t)
    if m:
        return m.group(1).strip()
    m = re.match(r'^const (.+?) &$', t)
    if m:
        return m.group(1).strip()
    return t


HOOK_SINKS = ['Node', 'Expr', 'Classic', 'Name', 'Type', 'Stmt', 'Decl', 'Directive']


def hooks(records):
    """parameter classes of the ipr::Visitor::visit overloads, in declaration order"""
    v = records.get('ipr::Visitor')
    if not v:
        raise Undecided('MUST-FIRE: ipr::Visitor is not in the catalogue')
    hs = []
    for m in v['methods']:
        if m['name'] == 'visit' and len(m['params']) == 1:
            t = re.match(r'const (ipr::[\w:]+) &$', m['params'][0])
            if not t:
                raise Undecided('unexpected visitor hook parameter: ' + m['params'][0])
            hs.append(dict(cls=t.group(1), pure=m['pure'], mangled=m['mangled']))
    return hs


LIB = '#include "%s/src/impl.cxx"\n#include "%s/drivers/factory_lib.hxx"\n'


def visitor_text(hs):
    """Rec: a visitor that overrides EVERY hook and records which one ran, on which node, how often; hook_id: the hook a static
    interface type selects by overload resolution (its own hook if it has one, else its nearest base that has one)"""
    t = 'namespace drv {\n   struct Rec final : ipr::Visitor {\n      int id = -1; const void* who = nullptr; int calls = 0;\n'
    for i, h in enumerate(hs):
        t += '      void visit(const %s& n) final { id = %d; who = &n; ++calls; }\n' % (h['cls'], i)
    t += '   };\n'
    for i, h in enumerate(hs):
        t += '   inline int hook_id(const %s&) { return %d; }\n' % (h['cls'], i)
    t += '   template<Category_code C, class B> inline int super_hook_id(const Category<C, B>& x) { return hook_id(static_cast<const B&>(x)); }\n'
    t += '}\n'
    return t


def syntax_filter(text, spans, workdir, name):
    """clang -fsyntax-only on the generated driver; wrappers (line spans) with errors are dropped.  returns (text, dropped{wrapper: first error})"""
    dropped = {}
    for round_ in range(6):
        path = os.path.join(workdir, name)
        open(path, 'w').write(text)
        p = subprocess.run(['clang++', '-fsyntax-only', '-ferror-limit=0', '-fno-caret-diagnostics'] + ipv.CLANG_ARGS + [path], stdout=subprocess.PIPE, stderr=subprocess.PIPE, text=True)
        errs = [(int(m.group(1)), m.group(2)) for m in re.finditer(r'^%s:(\d+):\d+: error: (.*)$' % re.escape(path), p.stderr, re.M)]
        if p.returncode == 0:
            return text, dropped
        if not errs:
            raise Undecided('generated driver rejected by clang outside the generated wrappers: ' + p.stderr[-1500:])
        lines = text.split('\n')
        bad = {}
        for ln, msg in errs:
            hit = [w for w, (a, b) in spans.items() if a <= ln <= b and w not in dropped]
            if not hit:
                raise Undecided('generated driver: error outside any wrapper at line %d: %s' % (ln, msg))
            bad.setdefault(hit[0], msg)
        for w, msg in bad.items():
            a, b = spans[w]
            for k in range(a - 1, b):
                lines[k] = '// dropped: ' + lines[k]
            dropped[w] = msg
        text = '\n'.join(lines)
    raise Undecided('generated driver still rejected after filtering')


def cparams(sig):
    """lowered C signature -> [(type, name)]"""
    m = re.match(r'(.+?)\s+(\w+)\((.*)\)$', sig, re.S)
    ps = []
    depth = 0; cur = ''
    for ch in m.group(3):
        if ch == ',' and depth == 0:
            ps.append(cur.strip()); cur = ''
        else:
            depth += ch in '([{'; depth -= ch in ')]}'; cur += ch
    if cur.strip():
        ps.append(cur.strip())
    out = []
    for p in ps:
        if p == 'void':
            continue
        mm = re.match(r'(.*?)(\w+)$', p, re.S)
        out.append((mm.group(1).strip(), mm.group(2)))
    return m.group(1).strip(), m.group(2), out


SV = 'struct S_ZTSSt17basic_string_viewIDuSt11char_traitsIDuEE'


def operand_decl(ctype, name, k):
    """C statements creating an arbitrary operand of the lowered parameter type: foreign nodes are fresh zeroed objects (pairwise
    distinct by construction), Optionals are present or absent, scalars and enumerations arbitrary"""
    if ctype.endswith('*') and ctype.startswith('struct '):
        inner = ctype[:-1].strip()
        if inner.endswith('*'):
            return '  %s %s = 0;\n' % (ctype, name)
        return '  %s %s = NEWZ(%s);\n' % (ctype, name, inner)
    if ctype.startswith('struct S_ZTSN3ipr8OptionalI'):
        return '  %s %s; %s.f_ptr = nondet_bool() ? NEWZ(__typeof__(*%s.f_ptr)) : 0;\n' % (ctype, name, name, name)
    if ctype == SV:
        return '  %s %s; %s.f__M_len = nondet_ulong(); __CPROVER_assume(%s.f__M_len <= 4); %s.f__M_str = malloc(8); __CPROVER_assume(%s.f__M_str != 0);\n' % (ctype, name, name, name, name, name)
    if ctype in ('unsigned char *', 'unsigned char*'):
        return '  static unsigned char %s_buf[4] = { 119, 120, 0, 0 }; unsigned char* %s = %s_buf;\n' % (name, name, name)
    if ctype in ('int', 'unsigned int', 'long', 'unsigned long', '_Bool', 'unsigned char', 'char', 'short', 'unsigned short', 'signed char'):
        return '  %s %s; { %s t_%d; %s = t_%d; }\n' % (ctype, name, ctype, k, name, k)     # uninitialised local = arbitrary value
    if ctype.startswith('struct '):
        return '  %s %s; __CPROVER_havoc_object(&%s);\n' % (ctype, name, name)
    raise Undecided('no operand generator for lowered parameter type %r' % ctype)


def ext_models(u, slots=4, skip=()):
    """foreign operand nodes: every virtual accessor a factory may call on an operand is an arbitrary function of the receiver
    (`slots` receivers cached per accessor; more receivers than that fail an assertion, so nothing is silently identified)"""
    t = ''
    for v in u.json['virtual_stubs']:
        ret, params, name = v['ret'].strip(), v['params'], v['name'] + '__ext'
        if name in skip:
            continue
        first = re.match(r'(.*?)(\w+)(?:,|$)', params).group(2)
        if ret == 'void':
            t += 'void %s(%s) { }\n' % (name, params); continue
        if ret.endswith('*') and ret.startswith('struct '):
            fresh = '%s x = NEWZ(%s);' % (ret, ret[:-1].strip())
        elif ret.startswith('struct '):
            fresh = '%s x; __CPROVER_havoc_object(&x);' % ret
        else:
            fresh = '%s x; { %s t; x = t; }' % (ret, ret)
        t += '%s %s(%s) { static void* r[%d]; static %s v[%d]; static int n;\n  for (int k = 0; k < %d; k++) if (k < n && r[k] == (void*)%s) return v[k];\n' % (ret, name, params, slots, ret, slots, slots, first)
        t += '  __CPROVER_assert(n < %d, "foreign-accessor model: number of receivers per accessor within the harness bound"); %s r[n] = %s; v[n] = x; n++; return x; }\n' % (slots, fresh, first)
    return t


def pooled_type_and_forall(cps):
    """C statements that take a `const Type&` and a `const Forall&` operand (named v_t, v_q) from ONE array, so that their address order --
    what the scope's tables compare -- folds to a constant (tree shapes under arbitrary orders are C08's business); None if not applicable"""
    d = {pn: ct for ct, pn in cps}
    if 'v_t' in d and 'v_q' in d and 'Forall' in d['v_q']:
        return ('  static %s fpool[2];\n  %s v_q = &fpool[0]; %s v_t = (%s)&fpool[1];      /* a Forall is a Type (first-base chain) */\n' % (d['v_q'][:-1].strip(), d['v_q'], d['v_t'], d['v_t']), ('v_t', 'v_q'))
    return None


PRELUDE_C = '#include "flmodel.h"\n#include "seqmodel.h"\nstatic void* zalloc(unsigned long n) { return __CPROVER_allocate(n, 1); }   /* fresh zero-initialised object (byte-wise memset of a whole Lexicon costs cbmc minutes) */\n#define NEWZ(T) ((T*)zalloc(sizeof(T)))\n'
