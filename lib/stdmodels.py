"""Assumed contracts of std:: functions (DESIGN.md 5.2), generated per instantiation from the lowered unit's JSON index.
Each model is a few lines of C that restate the standard's guarantee; they are listed in the evidence as assumptions."""
import re

def _params(p):
    # "void *self, unsigned long *a1, unsigned long *a2" -> [(type, name)]
    out = []
    for part in [x.strip() for x in p.split(',') if x.strip()]:
        m = re.match(r'(.*?)(\w+)$', part)
        out.append((m.group(1).strip(), m.group(2)))
    return out

SV = 'struct S_ZTSSt17basic_string_viewIDuSt11char_traitsIDuEE'

def auto_models(j, skip=()):
    text, used = '', []
    svinc = False
    flinc = False
    lessinc = False
    sqinc = False
    for s in j['std_stubs']:
        q, n = s['qualified'], s['name']
        if n in skip:
            continue
        ps = _params(s['params'])
        if q == 'std::less<>::operator()' and len(ps) == 3:
            byref = '&' in s.get('type', '')
            a, b = ps[1][1], ps[2][1]
            if byref:     # operator()(T&&, U&&): operands arrive as references (lowered to pointers to the operands)
                if ps[1][0].count('*') >= 2:
                    body = 'return IPR_PTR_LESS(*%s, *%s);' % (a, b)
                else:
                    body = 'return *%s < *%s;' % (a, b)
            else:         # libstdc++'s pointer overload operator()(T*, U*): total order on addresses
                body = 'return IPR_PTR_LESS(%s, %s);' % (a, b)
            if not lessinc:
                lessinc = True
                text += ('/* address order: within one object by offset (cbmc folds this to a constant for constant addresses, which keeps look-ups in the\n'
                         '   red-black tables deterministic when the harness fixes the address order), across objects by address value */\n'
                         '#ifndef IPR_PTR_LESS\n#define IPR_PTR_LESS(a, b) (__CPROVER_same_object((void*)(a), (void*)(b)) ? __CPROVER_POINTER_OFFSET((void*)(a)) < __CPROVER_POINTER_OFFSET((void*)(b)) : (unsigned long)(a) < (unsigned long)(b))\n#endif\n')
            text += '/* assumed: std::less<> orders scalars by value and pointers by address (as libstdc++ does) */\n%s %s(%s) { %s }\n' % (s['ret'], n, s['params'], body)
            used.append('std::less<> = value / address order')
        svm = None
        if q == 'std::operator==' and len(ps) == 2 and ps[0][0] == SV and ps[1][0] == SV:
            svm = 'return sv_equal(%s, %s);' % (ps[0][1], ps[1][1])
        elif q == 'std::operator<=>' and len(ps) == 2 and ps[0][0] == SV and ps[1][0] == SV:
            svm = '%s r; __builtin_memset(&r, 0, sizeof r); *(signed char*)&r = (signed char)sv_cmp3(%s, %s); return r;' % (s['ret'], ps[0][1], ps[1][1])
        elif q == 'std::basic_string_view<char8_t>::compare' and len(ps) == 2 and ps[1][0] == SV:
            svm = 'return sv_cmp3(*(sv_t*)%s, %s);' % (ps[0][1], ps[1][1])
        elif q in ('std::operator<', 'std::operator>', 'std::operator<=', 'std::operator>=') and len(ps) == 2 and 'strong_ordering' in ps[0][0] and '__unspec' in ps[1][0]:
            svm = 'return *(signed char*)&%s %s 0;' % (ps[0][1], q[len('std::operator'):])
        if svm:
            if not svinc:
                text += '#include "svmodel.h"\n'; svinc = True
            text += '/* assumed: u8string_view comparison is bytewise lexicographic (svmodel.h) */\n%s %s(%s) { %s }\n' % (s['ret'], n, s['params'], svm)
            used.append('u8string_view ==, <=>, compare = bytewise lexicographic order')
            continue
        flm = None
        if re.match(r'std::forward_list<.*>::(before_begin|cbefore_begin)$', q) and len(ps) == 1:
            flm = '%s r; __builtin_memset(&r, 0, sizeof r); *(void**)&r = %s; return r;' % (s['ret'], ps[0][1])
        elif re.match(r'std::forward_list<.*>::c?begin$', q) and len(ps) == 1:
            flm = '%s r; __builtin_memset(&r, 0, sizeof r); *(void**)&r = fl_begin_of(%s); return r;' % (s['ret'], ps[0][1])
        elif re.match(r'std::forward_list<.*>::c?end$', q) and len(ps) == 1:
            flm = '%s r; __builtin_memset(&r, 0, sizeof r); return r;' % s['ret']
        elif re.match(r'std::forward_list<.*>::empty$', q) and len(ps) == 1:
            flm = 'return fl_length(%s) == 0;' % ps[0][1]
        elif re.match(r'std::forward_list<.*>::front$', q) and len(ps) == 1:
            flm = 'return (%s)__ipr_fl_front(%s);' % (s['ret'], ps[0][1])
        elif re.match(r'std::_Fwd_list_(const_)?iterator<.*>::operator\*$', q) and len(ps) == 1:
            flm = '__CPROVER_assert(*(void**)%s != 0, "forward_list model: dereference of a valid iterator"); return (%s)*(void**)%s;' % (ps[0][1], s['ret'], ps[0][1])
        elif re.match(r'std::_Fwd_list_(const_)?iterator<.*>::operator->$', q) and len(ps) == 1:
            flm = 'return (%s)*(void**)%s;' % (s['ret'], ps[0][1])
        elif q == 'std::distance' and len(ps) == 2 and '_Fwd_list_' in ps[0][0]:
            flm = ('void* pa = *(void**)&%s; void* pb = *(void**)&%s; int sa, sb; if (pa == 0) { __CPROVER_assert(pb == 0, "forward_list model: distance(end, x)"); return 0; } '
                   'long ia = fl_locate(pa, &sa); __CPROVER_assert(ia >= 0, "forward_list model: distance from a valid iterator"); long ib = pb ? fl_locate(pb, &sb) : fl_count[sa]; return ib - ia;' % (ps[0][1], ps[1][1]))
        elif q == 'std::advance' and len(ps) == 2 and '_Fwd_list_' in ps[0][0]:
            flm = ('void* p = *(void**)%s; int sl; if (%s == 0) return; __CPROVER_assert(p != 0, "forward_list model: advance of a valid iterator"); long i = fl_locate(p, &sl); '
                   '__CPROVER_assert(i >= 0 && i + %s <= fl_count[sl], "forward_list model: advance stays within the list"); *(void**)%s = (i + %s < fl_count[sl]) ? fl_elem_at(sl, i + %s) : (void*)0;' % (ps[0][1], ps[1][1], ps[1][1], ps[0][1], ps[1][1], ps[1][1]))
        elif q in ('std::operator==', 'std::operator!=') and len(ps) == 2 and '_Fwd_list_' in ps[0][0] and '_Fwd_list_' in ps[1][0]:
            deref = lambda p: ('*(void**)%s' % p[1]) if p[0].rstrip().endswith('*') else ('*(void**)&%s' % p[1])
            flm = 'return %s %s %s;' % (deref(ps[0]), q[-2:], deref(ps[1]))
        elif re.match(r'std::_Fwd_list_(const_)?iterator<.*>::operator\+\+$', q) and len(ps) == 1:
            flm = ('void* p = *(void**)%s; int sl; long i = fl_locate(p, &sl); __CPROVER_assert(i >= 0, "forward_list model: increment of a valid iterator"); *(void**)%s = (i + 1 < fl_count[sl]) ? fl_elem_at(sl, i + 1) : (void*)0; return (%s)%s;'
                   % (ps[0][1], ps[0][1], s['ret'], ps[0][1]))
        if flm:
            if not flinc:
                text += '#include "flmodel.h"\n'; flinc = True
            text += '/* assumed: std::forward_list as a sequence of never-moving elements (flmodel.h) */\n%s %s(%s) { %s }\n' % (s['ret'], n, s['params'], flm)
            used.append('std::forward_list = finite sequence, iterators designate elements, elements never move (harness/flmodel.h)')
            continue
        sqm = None
        if re.match(r'std::vector<[^<>]*\*>::push_back$', q) and len(ps) == 2:
            sqm = 'sq_append(%s, (void*)*%s);' % (ps[0][1], ps[1][1])
        elif re.match(r'std::(vector|deque)<.*>::size$', q) and len(ps) == 1:
            sqm = 'return sq_length(%s);' % ps[0][1]
        elif re.match(r'std::vector<[^<>]*\*>::at$', q) and len(ps) == 2:
            sqm = 'int sl = sq_find(%s); if (sl < 0 || %s >= sq_size[sl]) { __ipr_throw(IPR_EXC_std__out_of_range); return 0; } return (%s)&sq_elem_at(sl, %s);' % (ps[0][1], ps[1][1], s['ret'], ps[1][1])
        elif re.match(r'std::vector<[^<>]*\*>::operator\[\]$', q) and len(ps) == 2:
            sqm = 'int sl = sq_find(%s); __CPROVER_assert(sl >= 0 && %s < sq_size[sl], "sequence model: operator[] within bounds"); return (%s)&sq_elem_at(sl, %s);' % (ps[0][1], ps[1][1], s['ret'], ps[1][1])
        elif re.match(r'std::vector<[^<>]*\*>::(front|back)$', q) and len(ps) == 1:
            sqm = 'int sl = sq_find(%s); __CPROVER_assert(sl >= 0 && sq_size[sl] > 0, "sequence model: front() / back() of a non-empty vector"); return (%s)&sq_elem_at(sl, %s);' % (ps[0][1], s['ret'], '0' if q.endswith('front') else 'sq_size[sl] - 1')
        elif re.match(r'std::vector<[^<>]*\*>::resize$', q) and len(ps) == 2:
            sqm = 'int sl = sq_slot(%s); __CPROVER_assert(%s <= SEQ_CAP, "sequence model: resize within the harness bound"); for (int k = 0; k < SEQ_CAP; k++) if (k >= sq_size[sl]) sq_elem_at(sl, k) = 0; sq_size[sl] = %s;' % (ps[0][1], ps[1][1], ps[1][1])
        elif re.match(r'std::deque<.*>::(operator\[\]|at)$', q) and len(ps) == 2:
            sqm = 'int sl = sq_find(%s); __CPROVER_assert(sl >= 0 && %s < sq_size[sl], "sequence model: deque element access within bounds"); return (%s)sq_elem_at(sl, %s);' % (ps[0][1], ps[1][1], s['ret'], ps[1][1])
        dq = lambda p: ('((void**)%s)' % p[1]) if p[0].rstrip().endswith('*') else ('((void**)&%s)' % p[1])
        if re.match(r'std::deque<.*>::c?begin$', q) and len(ps) == 1:
            sqm = '%s r; __builtin_memset(&r, 0, sizeof r); ((void**)&r)[0] = %s; ((unsigned long*)&r)[1] = 0; return r;' % (s['ret'], ps[0][1])
        elif re.match(r'std::deque<.*>::c?end$', q) and len(ps) == 1:
            sqm = '%s r; __builtin_memset(&r, 0, sizeof r); ((void**)&r)[0] = %s; ((unsigned long*)&r)[1] = sq_length(%s); return r;' % (s['ret'], ps[0][1], ps[0][1])
        elif q in ('std::operator==', 'std::operator!=') and len(ps) == 2 and '_Deque_iterator' in ps[0][0] and '_Deque_iterator' in ps[1][0]:
            sqm = 'return %s(%s[0] == %s[0] && %s[1] == %s[1]);' % ('!' if q.endswith('!=') else '', dq(ps[0]), dq(ps[1]), dq(ps[0]), dq(ps[1]))
        elif re.match(r'std::_Deque_iterator<.*>::operator\+\+$', q) and len(ps) == 1:
            sqm = '((unsigned long*)%s)[1]++; return (%s)%s;' % (ps[0][1], s['ret'], ps[0][1])
        elif re.match(r'std::_Deque_iterator<.*>::operator\*$', q) and len(ps) == 1:
            sqm = 'int sl = sq_find(((void**)%s)[0]); unsigned long i = ((unsigned long*)%s)[1]; __CPROVER_assert(sl >= 0 && i < sq_size[sl], "sequence model: dereference of a valid deque iterator"); return (%s)sq_elem_at(sl, i);' % (ps[0][1], ps[0][1], s['ret'])
        if sqm:
            if not sqinc:
                text += '#include "seqmodel.h"\n'; sqinc = True
            text += '/* assumed: std::vector<const void*> / std::deque as finite sequences (seqmodel.h) */\n%s %s(%s) { %s }\n' % (s['ret'], n, s['params'], sqm)
            used.append('std::vector<const void*> = sequence of pointer values, at() checked; std::deque = sequence of never-moving elements (harness/seqmodel.h)')
            continue
        vm = None
        mi = re.search(r'ILm(\d+)E', n)
        if re.match(r'std::variant<.*>::index$', q) and len(ps) == 1:
            vm = 'return ((unsigned char*)%s)[8];' % ps[0][1]
        elif q == 'std::get' and len(ps) == 1 and 'variant' in s.get('type', '') and mi:
            vm = ('if (((unsigned char*)%s)[8] != %s) { __ipr_throw(IPR_EXC_std__bad_variant_access); }  return (%s)%s;' % (ps[0][1], mi.group(1), s['ret'], ps[0][1]))
        elif re.match(r'std::variant<.*>::emplace$', q) and mi:
            vm = '*(void**)%s = 0; ((unsigned char*)%s)[8] = %s; return (%s)%s;' % (ps[0][1], ps[0][1], mi.group(1), s['ret'], ps[0][1])
        if q == 'std::get_if' and len(ps) == 1 and 'variant<' in s.get('type', ''):
            ty = s.get('type', '')
            norm = lambda t: re.sub(r'\s+', ' ', re.sub(r'\b(const|struct|class)\b', '', t)).replace(' *', '*').strip()
            alts = [norm(a) for a in re.search(r'variant<([^<>]*)>', ty).group(1).split(',')]
            want = re.match(r'\s*(?:std::)?add_pointer_t<([^<>]*?)>', ty)
            idx = int(mi.group(1)) if mi else (alts.index(norm(want.group(1))) if want and norm(want.group(1)) in alts else None)
            if idx is not None:
                vm = 'if (%s == 0 || ((unsigned char*)%s)[8] != %d) return 0; return (%s)%s;' % (ps[0][1], ps[0][1], idx, s['ret'], ps[0][1])
        if vm:
            text += ('#ifndef IPR_EXC_std__bad_variant_access\n#define IPR_EXC_std__bad_variant_access 0x7ffffff2      /* even: NOT derived from std::logic_error */\n#endif\n'
                     '/* assumed: std::variant of pointer alternatives = (pointer value, index of the active alternative); a value-initialised variant holds alternative 0 = null */\n%s %s(%s) { %s }\n' % (s['ret'], n, s['params'], vm))
            used.append('std::variant<A*, B*> = (pointer, active index); get<I> of the wrong alternative raises bad_variant_access (not a logic error)')
            continue
        if q == 'std::char_traits<char8_t>::length' and len(ps) == 1:
            text += '/* assumed: char_traits::length = number of characters before the terminating NUL (strings of the library are short literals) */\n'
            text += '%s %s(%s) { unsigned long n = 0; while (n < 64 && %s[n] != 0) n++; __CPROVER_assert(n < 64, "char_traits::length model bound"); return n; }\n' % (s['ret'], n, s['params'], ps[0][1])
            used.append('char_traits<char8_t>::length = strlen (<= 64)')
    return text, sorted(set(used))
