"""Assumed contracts of std:: functions (DESIGN.md 5.2), generated per instantiation from the lowered unit's JSON index.
Each model is a few lines of C that restate the standard's guarantee; they are listed in the evidence as assumptions."""
import re

def _params(p):
    # "void *self, unsigned long *a1, unsigned long *a2" -> [(type, name)]
    out = []
    for part in [x.strip() for x in p.split(',') if x.strip()]:
        m = re.match(r'(.*?)(\w+)$', part)
        out.append((m.group(1).strip(), m.group(2)))
    return out

SV = 'struct S_ZTSSt17basic_string_viewIDuSt11char_traitsIDuEE'

def auto_models(j, skip=()):
    text, used = '', []
    svinc = False
    for s in j['std_stubs']:
        q, n = s['qualified'], s['name']
        if n in skip:
            continue
        ps = _params(s['params'])
        if q == 'std::less<>::operator()' and len(ps) == 3:
            byref = '&' in s.get('type', '')
            a, b = ps[1][1], ps[2][1]
            if byref:     # operator()(T&&, U&&): operands arrive as references (lowered to pointers to the operands)
                if ps[1][0].count('*') >= 2:
                    body = 'return (unsigned long)*%s < (unsigned long)*%s;' % (a, b)
                else:
                    body = 'return *%s < *%s;' % (a, b)
            else:         # libstdc++'s pointer overload operator()(T*, U*): total order on addresses
                body = 'return (unsigned long)%s < (unsigned long)%s;' % (a, b)
            text += '/* assumed: std::less<> orders scalars by value and pointers by address (as libstdc++ does) */\n%s %s(%s) { %s }\n' % (s['ret'], n, s['params'], body)
            used.append('std::less<> = value / address order')
        svm = None
        if q == 'std::operator==' and len(ps) == 2 and ps[0][0] == SV and ps[1][0] == SV:
            svm = 'return sv_equal(%s, %s);' % (ps[0][1], ps[1][1])
        elif q == 'std::operator<=>' and len(ps) == 2 and ps[0][0] == SV and ps[1][0] == SV:
            svm = '%s r; __builtin_memset(&r, 0, sizeof r); *(signed char*)&r = (signed char)sv_cmp3(%s, %s); return r;' % (s['ret'], ps[0][1], ps[1][1])
        elif q == 'std::basic_string_view<char8_t>::compare' and len(ps) == 2 and ps[1][0] == SV:
            svm = 'return sv_cmp3(*(sv_t*)%s, %s);' % (ps[0][1], ps[1][1])
        elif q in ('std::operator<', 'std::operator>', 'std::operator<=', 'std::operator>=') and len(ps) == 2 and 'strong_ordering' in ps[0][0] and '__unspec' in ps[1][0]:
            svm = 'return *(signed char*)&%s %s 0;' % (ps[0][1], q[len('std::operator'):])
        if svm:
            if not svinc:
                text += '#include "svmodel.h"\n'; svinc = True
            text += '/* assumed: u8string_view comparison is bytewise lexicographic (svmodel.h) */\n%s %s(%s) { %s }\n' % (s['ret'], n, s['params'], svm)
            used.append('u8string_view ==, <=>, compare = bytewise lexicographic order')
            continue
        if q == 'std::char_traits<char8_t>::length' and len(ps) == 1:
            text += '/* assumed: char_traits::length = number of characters before the terminating NUL (strings of the library are short literals) */\n'
            text += '%s %s(%s) { unsigned long n = 0; while (n < 64 && %s[n] != 0) n++; __CPROVER_assert(n < 64, "char_traits::length model bound"); return n; }\n' % (s['ret'], n, s['params'], ps[0][1])
            used.append('char_traits<char8_t>::length = strlen (<= 64)')
    return text, sorted(set(used))
