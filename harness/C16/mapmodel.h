/* assumed contract of std::map<const Parameter*, const Expr*> as an EXACT finite map, per map object (up to NMAP maps of up to NENT
   entries; more fails an assertion, so nothing is silently identified): find / end / iterator == / -> / insert_or_assign */
typedef struct S_ZTSN3ipr9ParameterE mm_param_t; typedef struct S_ZTSN3ipr4ExprE mm_expr_t;
typedef struct S_ZTSSt4pairIKPKN3ipr9ParameterEPKNS0_4ExprEE mm_pair_t;
typedef struct S_ZTSSt23_Rb_tree_const_iteratorISt4pairIKPKN3ipr9ParameterEPKNS1_4ExprEEE mm_cit_t;
typedef struct S_ZTSSt4pairISt17_Rb_tree_iteratorIS_IKPKN3ipr9ParameterEPKNS1_4ExprEEEbE mm_insres_t;
#define NMAP 2
#define NENT 3
static void* MM_MAPS[NMAP]; static int mm_nmaps; static mm_pair_t MM_ENT[NMAP * NENT]; static int mm_nent[NMAP];
static int mm_id(void* self)
{ for (int k = 0; k < NMAP; k++) if (k < mm_nmaps && MM_MAPS[k] == self) return k;
  __CPROVER_assert(mm_nmaps < NMAP, "map model: number of map objects within the harness bound"); __CPROVER_assume(mm_nmaps < NMAP); MM_MAPS[mm_nmaps] = self; return mm_nmaps++; }
static mm_cit_t mm_it(mm_pair_t* p) { mm_cit_t it; __builtin_memset(&it, 0, sizeof it); *(mm_pair_t**)&it = p; return it; }
static mm_pair_t* mm_lookup(int m, mm_param_t* k) { for (int i = 0; i < NENT; i++) if (i < mm_nent[m] && MM_ENT[m * NENT + i].f_first == k) return &MM_ENT[m * NENT + i]; return 0; }
mm_cit_t @{map_find}(void* self, mm_param_t** k) { return mm_it(mm_lookup(mm_id(self), *k)); }
mm_cit_t @{map_end}(void* self) { return mm_it(0); }
_Bool @{it_eq}(mm_cit_t* a, mm_cit_t* b) { return *(mm_pair_t**)a == *(mm_pair_t**)b; }
mm_pair_t* @{it_arrow}(void* self) { return *(mm_pair_t**)self; }
mm_insres_t @{map_insert_or_assign}(void* self, mm_param_t** k, mm_expr_t** v)
{
  mm_insres_t r; __builtin_memset(&r, 0, sizeof r);
  int m = mm_id(self); mm_pair_t* e = mm_lookup(m, *k);
  if (e) { e->f_second = *v; return r; }
  __CPROVER_assert(mm_nent[m] < NENT, "map model: number of entries within the harness bound"); __CPROVER_assume(mm_nent[m] < NENT);
  MM_ENT[m * NENT + mm_nent[m]].f_first = *k; MM_ENT[m * NENT + mm_nent[m]].f_second = *v; mm_nent[m]++;
  return r;
}
