/* C16: substitutions are finite maps.  Objects are built with the real (lowered) constructor. */
typedef struct S_ZTSN3ipr9ParameterE param_t;
typedef struct S_ZTSN3ipr4ExprE expr_t;
typedef struct S_ZTSN3ipr4impl23Elementary_substitutionE esub_t;
typedef struct S_ZTSN3ipr4impl20General_substitutionE gsub_t;
#define AS_EXPR(p) (&(p)->__b0.__b0.__b0.__b0)

/* ---- assumed contract of std::map<const Parameter*, const Expr*> (DESIGN.md 5.2): a finite map.
   Single-witness abstraction: the map is an arbitrary function; its behaviour at ONE arbitrary key K0 is tracked
   exactly (has0, pair0), every other key is answered nondeterministically (present with some value, or absent). */
typedef struct S_ZTSSt4pairIKPKN3ipr9ParameterEPKNS0_4ExprEE pair_t;
typedef struct S_ZTSSt23_Rb_tree_const_iteratorISt4pairIKPKN3ipr9ParameterEPKNS1_4ExprEEE cit_t;
static param_t* K0; static _Bool has0; static pair_t pair0; static pair_t other_pair;
static cit_t mk_it(pair_t* p) { cit_t it; __builtin_memset(&it, 0, sizeof it); *(pair_t**)&it = p; return it; }
cit_t @{map_find}(void* self, param_t** k)
{
  if (*k == K0) return mk_it(has0 ? &pair0 : 0);
  if (nondet_bool()) return mk_it(0);
  other_pair.f_first = *k; other_pair.f_second = nondet_ptr();
  return mk_it(&other_pair);
}
cit_t @{map_end}(void* self) { return mk_it(0); }
_Bool @{it_eq}(cit_t* a, cit_t* b) { return *(pair_t**)a == *(pair_t**)b; }
pair_t* @{it_arrow}(void* self) { return *(pair_t**)self; }
struct S_ZTSSt4pairISt17_Rb_tree_iteratorIS_IKPKN3ipr9ParameterEPKNS1_4ExprEEEbE
@{map_insert_or_assign}(void* self, param_t** k, expr_t** v)
{
  struct S_ZTSSt4pairISt17_Rb_tree_iteratorIS_IKPKN3ipr9ParameterEPKNS1_4ExprEEEbE r;
  __builtin_memset(&r, 0, sizeof r);
  if (*k == K0) { has0 = 1; pair0.f_first = *k; pair0.f_second = *v; }
  return r;
}

static param_t* new_param(void) { param_t* p = malloc(sizeof *p); __CPROVER_assume(p != 0); return p; }
static expr_t* new_expr(void) { expr_t* p = malloc(sizeof *p); __CPROVER_assume(p != 0); return p; }
/* an arbitrary expression: a fresh node, or one of the parameters themselves (a parameter is an expression) */
static expr_t* any_expr(param_t* a, param_t* b) { return nondet_bool() ? new_expr() : nondet_bool() ? AS_EXPR(a) : AS_EXPR(b); }
static void new_gsub(gsub_t* s) { @{gen_ctor}(s); }   /* the real (implicitly defined) constructor; the map member is the ghost model above */

void h_elem(void)
{
  param_t* parm = new_param(); param_t* other = new_param(); expr_t* value = any_expr(parm, other);
  esub_t s;
  @{elem_ctor}(&s, parm, value);
  param_t* q = nondet_bool() ? parm : other;
  expr_t* r = @{elem_index}(&s, q);
  if (q == parm) { __CPROVER_assert(r == value, "C16: applying an elementary substitution to its parameter yields the bound expression"); IPR_CANARY_POINT(); }
  else { __CPROVER_assert(r == AS_EXPR(q), "C16: applying an elementary substitution to any other parameter yields that parameter unchanged"); IPR_CANARY_POINT(); }
}

void h_gen_lookup(void)
{
  gsub_t s; param_t* q = new_param(); new_gsub(&s);
  K0 = q; has0 = nondet_bool();
  if (has0) { pair0.f_first = q; pair0.f_second = any_expr(q, q); }
  expr_t* r = @{gen_index}(&s, q);
  if (has0) { __CPROVER_assert(r == pair0.f_second, "C16: a parameter in the domain maps to the expression bound to it"); IPR_CANARY_POINT(); }
  else { __CPROVER_assert(r == AS_EXPR(q), "C16: a parameter outside the domain maps to itself"); IPR_CANARY_POINT(); }
}

void h_gen_subst(void)
{
  gsub_t s; param_t* p = new_param(); param_t* q = new_param(); expr_t* v = any_expr(p, q); expr_t* v2 = any_expr(p, q);
  new_gsub(&s);
  _Bool same = nondet_bool();           /* track p itself, or some other parameter q */
  K0 = same ? p : q; has0 = nondet_bool();
  if (has0) { pair0.f_first = K0; pair0.f_second = any_expr(p, q); }
  expr_t* before = @{gen_index}(&s, K0);
  gsub_t* back = @{gen_subst}(&s, p, v);
  __CPROVER_assert(back == &s, "C16: subst returns the substitution itself");
  expr_t* after = @{gen_index}(&s, K0);
  if (same) {
    __CPROVER_assert(after == v, "C16: after subst(p, v) the substitution maps p to v (latest binding)");
    @{gen_subst}(&s, p, v2);
    __CPROVER_assert(@{gen_index}(&s, p) == v2, "C16: a second binding for p replaces the first");
    IPR_CANARY_POINT();
  } else { __CPROVER_assert(after == before, "C16: subst(p, v) leaves the image of every other parameter unchanged"); IPR_CANARY_POINT(); }
}
