#include "flmodel.h"
static void* zalloc(unsigned long n) { void* p = malloc(n); __CPROVER_assume(p != 0); __builtin_memset(p, 0, n); return p; }
#define NEWZ(T) ((T*)zalloc(sizeof(T)))
typedef struct S_ZTSN3ipr4ExprE expr_t; typedef struct S_ZTSN3ipr4TypeE type_t; typedef struct S_ZTSN3ipr4NodeE node_t;
void h_plus(void)
{
  struct S_ZTSN3ipr4impl12expr_factoryE* f = malloc(sizeof *f); __CPROVER_assume(f != 0);
  expr_t* a0 = NEWZ(expr_t); expr_t* a1 = NEWZ(expr_t); struct S_ZTSN3ipr8OptionalINS_4TypeEEE a2; a2.f_ptr = nondet_bool() ? NEWZ(type_t) : 0;
  node_t* out = 0;
  unsigned bad = @{plus}(f, a0, a1, a2, &out);
  __CPROVER_assert(bad == 0, "make_plus reports what it was given");
  IPR_CANARY_POINT();
}
