/* C13: Lexicon constants.  Everything below runs the lowered real accessors on two arbitrary (uninitialised) Lexicon objects
   and reads the constant tables as clang's evaluator produced them.  Virtual calls go through the generated dynamic
   dispatchers (real final overriders of the constant objects' classes). */
#include "svmodel.h"
typedef struct S_ZTSN3ipr4impl7LexiconE lexicon_t;
typedef struct S_ZTSN3ipr4TypeE type_t; typedef struct S_ZTSN3ipr4ExprE expr_t; typedef struct S_ZTSN3ipr4NameE name_t;
typedef struct S_ZTSN3ipr6SymbolE symbol_t; typedef struct S_ZTSN3ipr7LinkageE linkage_t; typedef struct S_ZTSN3ipr7As_typeE astype_t;
typedef struct S_ZTSN3ipr10IdentifierE ident_t; typedef struct S_ZTSN3ipr8TransferE transfer_t; typedef struct S_ZTSN3ipr6StringE string_t;
typedef struct S_ZTSN3ipr4impl12_GLOBAL__N_114std_identifierE word_t;
typedef struct S_ZTSN3ipr4impl12type_factoryE tfactory_t; typedef struct S_ZTSN3ipr8DecltypeE decltype_t;
#define WORDS g__ZN3ipr4impl12_GLOBAL__N_111known_wordsE
#define BUILTINS g__ZN3ipr4impl12_GLOBAL__N_18builtinsE
#define NBUILTIN ((int)(sizeof(BUILTINS) / sizeof(BUILTINS[0])))
#define AS_TYPE_CODE @{enum:ipr::Category_code::As_type}
/* first-base chains: every subobject below starts at the address of the complete object */
#define NAME_OF_WORD(w) ((name_t*)(w))            /* std_identifier -> impl::Node<Identifier> -> Identifier -> ... -> Name */
#define IDENT_OF_WORD(w) ((ident_t*)(w))
#define TYPE_OF_BUILTIN(b) ((type_t*)(b))
static lexicon_t *L1, *L2;
static void lexicons(void) { L1 = malloc(sizeof *L1); L2 = malloc(sizeof *L2); __CPROVER_assume(L1 != 0 && L2 != 0); }
static _Bool spelled(word_t* w, const unsigned char* p, unsigned long n) { sv_t t = w->f_str.f_txt; if (t.f__M_len != n) return 0; for (unsigned long j = 0; j < 24; j++) if (j < n && t.f__M_str[j] != p[j]) return 0; return 1; }
static _Bool is_builtin(void* p) { for (int i = 0; i < NBUILTIN; i++) if (p == (void*)&BUILTINS[i]) return 1; return 0; }
/* contract of known_word(literal) (obligation C03.known_word): the table entry with that spelling; only called with string literals */
word_t* @{known_word}(unsigned char* p)
{ unsigned long n = 0; while (n < 24 && p[n] != 0) n++;
  for (int k = 0; k < (int)(sizeof(WORDS) / sizeof(WORDS[0])); k++) if (spelled(&WORDS[k], p, n)) return &WORDS[k];
  __CPROVER_assert(0, "known_word of a spelling that is not reserved"); return 0; }
#define CATEGORY(n) (((struct S_ZTSN3ipr4NodeE*)(n))->f_category)

void h_types(void)
{
  lexicons();
  type_t* R[NTYPES];
  type_t* tn = @{T_typename}(L1);
  for (int k = 0; k < NTYPES; k++) {
    type_t* r = ACCESSOR(k, L1);
    R[k] = r;
    __CPROVER_assert(r == ACCESSOR(k, L2), "C13: every Lexicon returns the same built-in type node");
    __CPROVER_assert(is_builtin(r), "C13: a built-in type accessor returns an entry of the constant table");
    word_t* w = &WORDS[WORD_INDEX[k]];
    __CPROVER_assert(spelled(w, SPELL[k], SPELL_LEN[k]), "C13: (oracle) the reserved word at that index has the documented spelling");
    __CPROVER_assert(@{vcall:type_name}(r) == NAME_OF_WORD(w), "C13: a built-in type names itself with the reserved Identifier of its documented C++ spelling");
    __CPROVER_assert(CATEGORY(r) == AS_TYPE_CODE, "C13: a built-in type is an expression-as-type node");
    __CPROVER_assert((void*)@{vcall:un_expr_operand}(&((astype_t*)r)->__b0.__b1) == (void*)r, "C13: a built-in type is its own underlying expression");
    __CPROVER_assert(@{vcall:expr_type}((expr_t*)r) == tn, "C13: a built-in type has type `typename`");
    transfer_t* x = @{vcall:type_transfer}(r);
    __CPROVER_assert(x == @{cxx_transfer}(), "C13: a built-in type has the natural C++ transfer");
    __CPROVER_assert(@{denote}((astype_t*)r), "C13: denote_builtin_type holds for a built-in type");
  }
  for (int i = 0; i < NTYPES; i++) for (int j = 0; j < i; j++) __CPROVER_assert(R[i] != R[j], "C13: the 26 built-in type accessors return pairwise distinct types");
  IPR_CANARY_POINT();
}

void h_values(void)
{
  lexicons();
  symbol_t* V[NVALUES];
  for (int k = 0; k < NVALUES; k++) {
    symbol_t* v = VACCESSOR(k, L1);
    V[k] = v;
    __CPROVER_assert(v == VACCESSOR(k, L2), "C13: every Lexicon returns the same symbolic constant");
    __CPROVER_assert((void*)@{vcall:un_name_operand}(&v->__b0.__b1) == (void*)NAME_OF_WORD(&WORDS[VWORD[k]]), "C13: a symbolic constant is named by the reserved word of its spelling");
    type_t* want = VTYPE(k, L1);
    if (want) __CPROVER_assert(@{vcall:expr_type}((expr_t*)v) == want, "C13: true and false have type bool, the deleted-definition constant has type void");
  }
  for (int i = 0; i < NVALUES; i++) for (int j = 0; j < i; j++) __CPROVER_assert(V[i] != V[j], "C13: the symbolic constants are pairwise distinct");
  /* nullptr: typed decltype(nullptr), an irreducible type expression over the constant itself */
  type_t* nt = @{vcall:expr_type}((expr_t*)V[2]);
  __CPROVER_assert(CATEGORY(nt) == @{enum:ipr::Category_code::Decltype}, "C13: nullptr has a decltype type");
  __CPROVER_assert((void*)@{vcall:un_expr_operand}(&((decltype_t*)nt)->__b0.__b1) == (void*)V[2], "C13: the type of nullptr is decltype(nullptr) over the constant itself");
  /* linkages */
  linkage_t* c = @{c_linkage}(L1); linkage_t* cxx = @{cxx_linkage}(L1);
  __CPROVER_assert(c == @{c_linkage}(L2) && cxx == @{cxx_linkage}(L2) && c != cxx, "C13: the two standard linkages are distinct and the same for every Lexicon");
  __CPROVER_assert(c->f_lang == &WORDS[W_C].__b1 && cxx->f_lang == &WORDS[W_CPP].__b1, "C13: the standard linkages are spelled C and C++");
  transfer_t* x = @{cxx_transfer}();
  __CPROVER_assert(@{vcall:xfer_first}((void*)x) == cxx, "C13: the natural transfer has C++ linkage");
  IPR_CANARY_POINT();
}

void h_route_as_type(void)
{
  tfactory_t* f = malloc(sizeof *f); __CPROVER_assume(f != 0);
  for (int k = 0; k < NBUILTIN; k++) {
    name_t* n = @{vcall:type_name}(TYPE_OF_BUILTIN(&BUILTINS[k]));
    astype_t* r = @{get_as_type_id}(f, (ident_t*)n);
    __CPROVER_assert((void*)r == (void*)&BUILTINS[k], "C13: asking for the type denoted by a built-in spelling yields the constant, not a look-alike");
  }
  /* any other identifier: an extended type, never a built-in */
  ident_t* other = malloc(sizeof *other); __CPROVER_assume(other != 0);
  astype_t* e = @{get_as_type_id}(f, other);
  __CPROVER_assert(!is_builtin(e), "C13: an identifier that names no built-in type denotes an extended type, different from every built-in");
  __CPROVER_assert((void*)@{vcall:type_name}((type_t*)e) == (void*)other, "C13/C02: an extended type is named by the identifier it was requested with");
  IPR_CANARY_POINT();
}

void h_route_decltype(void)
{
  lexicons();
  tfactory_t* f = malloc(sizeof *f); __CPROVER_assume(f != 0);
  symbol_t* np = @{V_nullptr}(L1);
  __CPROVER_assert((void*)@{get_decltype}(f, (expr_t*)np) == (void*)@{vcall:expr_type}((expr_t*)np), "C13: decltype of the nullptr constant is the constant's own type, not a look-alike");
  IPR_CANARY_POINT();
}
