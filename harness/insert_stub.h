/* The contract of util::rb_tree::container<T>::insert(key, comp), restated as a stub (Appendix A3 of DESIGN.md).
   It is what C08 establishes for the template body (rotations, fix-up and descents, lifted by L-tree / L-order), given
   that `comp` is a three-way total order whose zero set is key equality (the CMP-ORDER obligations prove that for the
   comparator clang resolved at this call site).  The stub calls the REAL lowered comparator and the REAL lowered
   make_node (allocator + the constructor clang selected for the element), so key construction (CTOR-KEY) is exercised too.

   Ghost state per table: TBL_W, an arbitrary element already in the table (or NULL): the witness for "whatever was built
   in between"; TBL_OTHER, some other element of the table.  Invariant of the table (maintained by insert): no two
   elements compare equal through their keys.

   DEFINE_INSERT_STUB(FN, SELF_T, NODE_T, ELEM_T, KEY_T, COMP_T, CMP, MAKE_NODE, W, OTHER, CALLS) */
#define DEFINE_INSERT_STUB(FN, SELF_T, NODE_T, ELEM_T, KEY_T, COMP_T, CMP, MAKE_NODE, W, OTHER, CALLS) \
ELEM_T* FN(SELF_T* self, KEY_T* key, COMP_T comp) \
{ \
  CALLS++; \
  __CPROVER_assume(self->__b0.f_count >= 0 && self->__b0.f_count < ((long)1 << 62));   /* table invariant: count = number of elements */ \
  if (W != 0 && CMP(&comp, W, key) == 0) return W;                 /* an equal element exists: it is returned, nothing is added */ \
  if (OTHER != 0 && OTHER != W && nondet_bool()) { __CPROVER_assume(CMP(&comp, OTHER, key) == 0); return OTHER; } \
  NODE_T* n = MAKE_NODE(self, key);                                /* no equal element: a new one is built from the key */ \
  self->__b0.f_count++; \
  __CPROVER_assert(CMP(&comp, &n->f_data, key) == 0, "CTOR-KEY: the element built from a key compares equal to that key"); \
  return &n->f_data; \
}
