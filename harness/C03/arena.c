/* C03 K1: the arena under contract. */
typedef struct S_ZTSN3ipr4util6string5arenaE arena_t;
typedef struct S_ZTSN3ipr4util6stringE ustring_t;
_Static_assert(sizeof(ustring_t) == 16, "lowered util::string has the C++ layout (16 bytes)");
_Static_assert(sizeof(struct S_ZTSN3ipr4util6string5arena4poolE) == 1048584, "lowered arena::pool has the C++ layout");
_Static_assert(__builtin_offsetof(ustring_t, f_data) == 8, "characters start 8 bytes into the header");

void h_allocate(void) { arena_t* a; long n; @{allocate}(a, n); IPR_CANARY_POINT(); }

#ifdef WITH_COPY
/* assumed contract of std::copy(first, last, out) on bytes: out[i] = first[i] for every i in [0, last-first), nothing else
   written; returns out + (last - first).  Written with a ghost index g_k that stands for every i. */
unsigned char* @{std_copy}(unsigned char* first, unsigned char* last, unsigned char* out)
{
  long n = last - first;
  __CPROVER_assert(n >= 0, "std::copy: valid range");
  if (n > 0) {
    __CPROVER_assert(__CPROVER_r_ok(first, n), "std::copy: source range readable");
    __CPROVER_assert(__CPROVER_w_ok(out, n), "std::copy: destination range writable (block large enough for the characters)");
    if (0 <= g_k && g_k < n) out[g_k] = first[g_k];
  }
  return out + n;
}
/* make_string against allocate's PROVED contract (C03.arena.allocate), restated here as a stub: a non-null block of
   16 * GRANULES(n) writable bytes.  Disjointness from every earlier word is part of that contract, so it is enough to show
   that make_string writes only inside the block (pointer checks) and writes the right thing. */
static long alloc_calls; static ustring_t* alloc_block; static long alloc_n;
ustring_t* @{allocate}(arena_t* self, long n)
{
  __CPROVER_assert(0 <= n && n <= ((long)1 << 40), "allocate's precondition: 0 <= n <= 2^40");
  alloc_calls++; alloc_n = n;
  alloc_block = malloc(HDRSZ * GRANULES(n)); __CPROVER_assume(alloc_block != 0);
  return alloc_block;
}
void h_make_string(void)
{
  arena_t a;
  g_k = nondet_long();
  long n = nondet_long(); __CPROVER_assume(0 <= n && n <= ((long)1 << 40));
  unsigned char* src = malloc(n + 1); __CPROVER_assume(src != 0);
  ustring_t* r = @{make_string}(&a, src, n);
  __CPROVER_assert(alloc_calls == 1 && alloc_n == n && r == alloc_block, "C03: the word lives in one block obtained from the arena for exactly its length");
  __CPROVER_assert(r->f_length == n, "C03: the new word has the requested length");
  if (0 <= g_k && g_k < n) __CPROVER_assert(((unsigned char*)r)[8 + g_k] == src[g_k], "C03: every character of the word is the source byte (any byte value, no terminator needed)");
  IPR_CANARY_POINT();
}
#endif

/* constructor establishes the representation invariant; util::string::operator[] is bounds-checked */
void h_ctor(void)
{
  arena_t a;
  @{arena_ctor}(&a);
  __CPROVER_assert(ARENA_WF(&a), "C03: a new arena is well formed");
  __CPROVER_assert(a.f_mem->f_previous == 0 && OFF(a.f_next_header) == 8, "C03: a new arena has one empty pool");
  IPR_CANARY_POINT();
}
void h_index(void)
{
  ustring_t* s = malloc(16 + 64); __CPROVER_assume(s != 0);
  __CPROVER_assume(s->f_length >= 0 && s->f_length <= 8 + 64);
  long i = nondet_long();
  __ipr_allow_exc = (i < 0 || i >= s->f_length) ? IPR_EXC_std__domain_error : IPR_ALLOW_NONE;
  char c = @{string_index}(s, i);
  __CPROVER_assert(0 <= i && i < s->f_length, "C14: an index outside [0, length) is refused with a logic error");
  __CPROVER_assert((unsigned char)c == ((unsigned char*)s)[8 + i], "C03: operator[] yields character i");
  IPR_CANARY_POINT();
}
