/* C03: string_pool::intern and the reserved-word lookup, on the lowered real code.
   Library parts are assumed contracts (DESIGN.md 5.2): u8string_view comparison (svmodel.h), std::hash (some function of the
   bytes), std::map::operator[] (the bucket of that hash), forward_list (nodes never move), std::find_if / std::lower_bound
   (linear-scan specifications calling the REAL lowered predicates), arena::make_string through its proved contract. */
#include "svmodel.h"
typedef struct S_ZTSN3ipr4util11string_poolE pool_t;
typedef struct S_ZTSN3ipr4impl6StringE istring_t;
typedef struct S_ZTSN3ipr6StringE String_t;
typedef struct S_ZTSN3ipr4impl12_GLOBAL__N_114std_identifierE word_t;
typedef struct S_ZTSSt12forward_listIN3ipr4impl6StringESaIS2_EE flist_t;
#ifdef IPR_HAVE_fl_begin
typedef struct S_ZTSSt18_Fwd_list_iteratorIN3ipr4impl6StringEE fit_t;
#endif
typedef struct S_ZTSN3ipr4util6stringE ustring_t;
#define WORDS g__ZN3ipr4impl12_GLOBAL__N_111known_wordsE
#define NWORD ((int)(sizeof(WORDS) / sizeof(WORDS[0])))      /* the table's size as clang evaluated it, not a constant of this harness */
#define AS_STRING(s) (&(s)->__b0.__b0.__b0)      /* impl::String -> ipr::String */

/* ---- std::lower_bound on the reserved-word table: first element for which comp(elem, value) is false (specification
   of lower_bound on a range partitioned by comp; the source static_asserts that the table is sorted) */
word_t* @{lower_bound}(word_t* first, word_t* last, sv_t* value, struct Slambda__ZN3ipr4impl12_GLOBAL__N_17word_ltE comp)
{
  word_t* p = first;
  for (int i = 0; i < NWORD + 1; i++) { if (p == last) break; if (!@{word_lt_call}(&comp, p, value)) break; p++; }
  return p;
}

/* ---- the pool's hash table: one bucket (the one std::map::operator[] yields for this word's hash) holding up to NB
   earlier words with arbitrary contents; every other bucket is irrelevant to this call */
#ifndef NB
#define NB 3
#endif
static istring_t* cell[NB + 1]; static int ncell;     /* bucket contents, front first */
static flist_t the_bucket; static unsigned long the_hash; static int hash_calls;
unsigned long @{hash}(void* self, sv_t* w) { hash_calls++; return the_hash; }
flist_t* @{map_index}(void* self, unsigned long* h) { __CPROVER_assert(*h == the_hash, "bucket is looked up by the word's hash"); return &the_bucket; }
#ifdef IPR_HAVE_fl_begin      /* the iterator-based scan (as the current source does it) */
static fit_t mk_it(int i) { fit_t it; __builtin_memset(&it, 0, sizeof it); *(long*)&it = i; return it; }
fit_t @{fl_begin}(void* self) { __CPROVER_assert(self == (void*)&the_bucket, "iteration over the word's bucket"); return mk_it(0); }
fit_t @{fl_end}(void* self) { return mk_it(ncell); }
_Bool @{it_eq}(fit_t* a, fit_t* b) { return *(long*)a == *(long*)b; }
istring_t* @{it_deref}(void* self) { long i = *(long*)self; __CPROVER_assert(0 <= i && i < ncell, "dereference of a valid iterator"); return cell[i]; }
fit_t @{find_if}(fit_t first, fit_t last, struct Slambda__ZN3ipr4util11string_pool6internESt17basic_string_viewIDuSt11char_traitsIDuEE_0 pred)
{
  long i = *(long*)&first, e = *(long*)&last;
  for (int k = 0; k < NB + 1; k++) { if (i == e) break; if (@{eq_call}(&pred, cell[i])) break; i++; }
  return mk_it((int)i);
}
#endif
_Bool @{fl_empty}(void* self) { __CPROVER_assert(self == (void*)&the_bucket, "emptiness is asked of the word's bucket"); return ncell == 0; }
/* emplace_front / front, as lowered by cxx2c (storage from __ipr_alloc, then linked) */
void __ipr_fl_push(void* list, void* node) { __CPROVER_assert(list == (void*)&the_bucket, "new word is entered into the word's bucket");
  for (int k = NB; k > 0; k--) cell[k] = cell[k - 1]; cell[0] = node; ncell++; }
void* __ipr_fl_front(void* list) { return cell[0]; }

/* ---- arena::make_string through its contract (proved by C03.arena.make_string / C03.arena.allocate) */
static int ms_calls; static ustring_t* ms_result;
ustring_t* @{make_string}(struct S_ZTSN3ipr4util6string5arenaE* self, unsigned char* s, long n)
{
  __CPROVER_assert(n >= 0 && n <= ((long)1 << 40), "make_string's precondition");
  ms_calls++;
  ustring_t* r = malloc(16 + SV_MAX + 16); __CPROVER_assume(r != 0);      /* fresh arena storage, never the caller's buffer */
  r->f_length = n;
  for (int i = 0; i < SV_MAX; i++) if (i < n) ((unsigned char*)r)[8 + i] = s[i];
  ms_result = r;
  return r;
}

static sv_t any_word(void)
{
  sv_t w; w.f__M_len = nondet_ulong(); __CPROVER_assume(w.f__M_len <= SV_MAX);
  w.f__M_str = malloc(SV_MAX + 1); __CPROVER_assume(w.f__M_str != 0);      /* arbitrary bytes, no terminator */
  return w;
}
static int reserved_index(sv_t w) { for (int k = 0; k < NWORD; k++) if (sv_equal(WORDS[k].f_str.f_txt, w)) return k; return -1; }

/* K1 word_if_known: a hit is an exact match, a miss means no reserved word has this spelling */
void h_word_if_known(void)
{
  sv_t w = any_word();
  word_t* r = @{word_if_known}(w);
  int k = reserved_index(w);
  if (r != 0) {
    __CPROVER_assert(r >= &WORDS[0] && r < &WORDS[NWORD], "C03: a hit is an entry of the reserved-word table");
    __CPROVER_assert(sv_equal(r->f_str.f_txt, w), "C03: a reserved word is returned only for exactly its spelling (no near miss)");
  }
  __CPROVER_assert((r != 0) == (k >= 0), "C03: every reserved spelling is recognised, nothing else is");
  if (k >= 0) __CPROVER_assert(r == &WORDS[k], "C03: the reserved word found is the table entry with that spelling");
  IPR_CANARY_POINT();
}

/* K1 known_word(s) for a NUL-terminated spelling: the table entry spelled s, std::domain_error when there is none
   (word_if_known through the contract proved above; char_traits::length = strlen assumed) */
#ifdef WITH_KNOWN_WORD
word_t* @{word_if_known}(sv_t w) { int k = reserved_index(w); return k < 0 ? 0 : &WORDS[k]; }
void h_known_word(void)
{
  unsigned char* s = malloc(SV_MAX + 1); __CPROVER_assume(s != 0);
  unsigned long n = nondet_ulong(); __CPROVER_assume(n <= SV_MAX); __CPROVER_assume(s[n] == 0);
  for (int i = 0; i < SV_MAX; i++) __CPROVER_assume(i >= n || s[i] != 0);
  sv_t w; w.f__M_len = n; w.f__M_str = s;
  int k = reserved_index(w);
  __ipr_allow_exc = k < 0 ? IPR_EXC_std__domain_error : IPR_ALLOW_NONE;
  word_t* r = @{known_word}(s);
  __CPROVER_assert(k >= 0 && r == &WORDS[k], "C03: known_word returns the table entry with exactly that spelling and refuses every other spelling");
  IPR_CANARY_POINT();
}
#endif

/* K1 intern, from an arbitrary prior bucket state */
void h_intern(void)
{
  pool_t* pool = malloc(sizeof *pool); __CPROVER_assume(pool != 0);
  the_hash = nondet_ulong();
  ncell = nondet_int(); __CPROVER_assume(0 <= ncell && ncell <= NB - 1);
  for (int i = 0; i < NB; i++) if (i < ncell) { cell[i] = malloc(sizeof(istring_t)); __CPROVER_assume(cell[i] != 0); sv_t c = any_word(); __CPROVER_assume(c.f__M_len > 0); cell[i]->f_txt = c; }
  /* pool invariant (L-history): the words of one bucket are pairwise different */
  for (int i = 0; i < NB; i++) for (int j = 0; j < i; j++) if (i < ncell) __CPROVER_assume(!sv_equal(cell[i]->f_txt, cell[j]->f_txt));
  sv_t w = any_word();
  istring_t* old_cell[NB]; for (int i = 0; i < NB; i++) old_cell[i] = cell[i];
  int old_n = ncell;
  int match = -1; for (int i = 0; i < NB; i++) if (i < old_n && match < 0 && sv_equal(cell[i]->f_txt, w)) match = i;
  int k = reserved_index(w);

  String_t* r = @{intern}(pool, w);

  if (w.f__M_len == 0) { __CPROVER_assert(r == @{empty_string}(), "C03: the empty word maps to the process-wide empty String"); __CPROVER_assert(ms_calls == 0 && ncell == old_n, "C03: nothing is allocated for the empty word"); IPR_CANARY_POINT(); }
  else if (k >= 0) { __CPROVER_assert(r == AS_STRING(&WORDS[k].f_str), "C03: a reserved word maps to its process-wide constant String"); __CPROVER_assert(ms_calls == 0 && ncell == old_n, "C03: nothing is allocated for a reserved word"); IPR_CANARY_POINT(); }
  else if (match >= 0) { __CPROVER_assert(r == AS_STRING(old_cell[match]), "C03: equal contents return the node interned earlier, wherever it sits in its bucket");
                         __CPROVER_assert(ms_calls == 0 && ncell == old_n, "C03: the arena and the table are untouched when the word is already interned"); IPR_CANARY_POINT(); }
  else {
    __CPROVER_assert(ms_calls == 1 && ncell == old_n + 1, "C03: a new word gets exactly one arena block and one table entry");
    __CPROVER_assert(r == AS_STRING(cell[0]), "C03: the node returned is the one entered into the table");
    for (int i = 0; i < NB; i++) if (i < old_n) __CPROVER_assert(cell[i + 1] == old_cell[i] && r != AS_STRING(old_cell[i]), "C03: earlier words stay in the table, at their address; different contents give a different node");
    sv_t t = cell[0]->f_txt;
    __CPROVER_assert(t.f__M_len == w.f__M_len && sv_equal(t, w), "C03: the String's characters are exactly the bytes interned");
    __CPROVER_assert(t.f__M_str == (unsigned char*)ms_result + 8, "C03: the characters live in arena storage, not in the caller's buffer");
    IPR_CANARY_POINT();
  }
  /* in every case the node returned spells w: hence different contents can never share a node */
  {
    sv_t got = r == @{empty_string}() ? (sv_t){0, 0} : (k >= 0 && r == AS_STRING(&WORDS[k < 0 ? 0 : k].f_str)) ? WORDS[k < 0 ? 0 : k].f_str.f_txt : ((istring_t*)r)->f_txt;
    __CPROVER_assert(got.f__M_len == w.f__M_len && (w.f__M_len == 0 || sv_equal(got, w)), "C03: the String returned has exactly the characters interned");
  }
}
