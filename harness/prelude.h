/* Prelude for every obligation: the run-time model the lowered code is linked against.
   Everything here is part of the trusted base (DESIGN.md section 5). */
#ifndef IPR_PRELUDE_H
#define IPR_PRELUDE_H
#include <stddef.h>
#include <stdlib.h>
#include <stdint.h>
#include <string.h>

/* ---- exceptions.  `throw E(...)` is lowered to __ipr_throw(IPR_EXC_<E>).  The harness states beforehand
   which exception (if any) the property allows on this path; a throw of anything else fails a named
   assertion; the path then ends (assume(0)), so "X ==> raises" is checked as "returned normally ==> !X".
   id = (index << 1) | 1 when the class derives from std::logic_error. */
#define IPR_ALLOW_NONE   0
#define IPR_ALLOW_LOGIC (-1)   /* any class derived from std::logic_error */
#define IPR_ALLOW_ANY   (-2)
int __ipr_allow_exc = IPR_ALLOW_NONE;
static inline int __ipr_throw(int id)
{
  __CPROVER_assert(__ipr_allow_exc == IPR_ALLOW_ANY || __ipr_allow_exc == id || (__ipr_allow_exc == IPR_ALLOW_LOGIC && (id & 1)),
                   "EXC: only the exception the property allows is raised here");
  __CPROVER_assume(0);
  return 0;
}

/* ---- the C library's byte functions, as the lowered code names them when the source calls them (clang's C++ names of the
   <cstring> declarations); given by cbmc's own models.  Unused unless a changed source starts calling them. */
int _Z6memcmp(void* a, void* b, unsigned long n) { return memcmp(a, b, n); }
void* _Z6memcpy(void* d, void* s, unsigned long n) { return memcpy(d, s, n); }
void* _Z7memmove(void* d, void* s, unsigned long n) { return memmove(d, s, n); }
void* _Z6memset(void* d, int c, unsigned long n) { return memset(d, c, n); }
unsigned long _Z6strlen(void* s) { return strlen((const char*)s); }

/* ---- allocation (assumed: never fails, fresh object of the requested size) */
#ifdef IPR_ALLOC_IS_MALLOC      /* leak checks (C19) need cbmc's malloc bookkeeping */
static inline void* __ipr_alloc(unsigned long n) { void* p = malloc(n); __CPROVER_assume(p != 0); return p; }
#else                           /* a fresh object with a CONSTANT address expression: cbmc's malloc model returns a conditional
                                   expression, which keeps every pointer derived from it symbolic and every dispatch on it a 150-way split */
static inline void* __ipr_alloc(unsigned long n) { return __CPROVER_allocate(n, 0); }
#endif
static inline void __ipr_free(void* p) { free(p); }
void* _Znwm(unsigned long n) { return __ipr_alloc(n); }            /* operator new(size_t)   */
void _ZdlPv(void* p) { free(p); }                                   /* operator delete(void*) */

/* forward_list::emplace_front / front as lowered by cxx2c: storage from __ipr_alloc, then linked; defined by the harness
   (or by flmodel.h: head pointer only) */
void __ipr_fl_push(void* list, void* node);
void* __ipr_fl_front(void* list);
void* __ipr_fl_insert_after(void* list, void* pos, void* node);
/* sized construction / copy construction of a standard container, as lowered by cxx2c; defined by the container model the harness uses */
void __ipr_vec_init(void* vec, unsigned long n);
void __ipr_dq_push(void* deque, void* node);
void __ipr_container_copy(void* dst, void* src, const char* what);

_Bool nondet_bool(void);
int nondet_int(void);
unsigned nondet_uint(void);
long nondet_long(void);
unsigned long nondet_ulong(void);
unsigned char nondet_uchar(void);
void* nondet_ptr(void);

#ifdef IPR_CANARY
#define IPR_CANARY_POINT() __CPROVER_assert(0, "CANARY: reachable end of harness")
#else
#define IPR_CANARY_POINT() ((void)0)
#endif
#endif
