#ifndef IPR_SVMODEL_H
#define IPR_SVMODEL_H
/* Assumed contracts of std::u8string_view comparisons (DESIGN.md 5.2): bytewise lexicographic order; equality = same length
   and same bytes.  Views are lowered field by field: f__M_len, f__M_str.  SV_MAX bounds the lengths the harness uses. */
typedef struct S_ZTSSt17basic_string_viewIDuSt11char_traitsIDuEE sv_t;
#ifndef SV_MAX
#define SV_MAX 24
#endif
static int sv_cmp3(sv_t a, sv_t b)
{
  for (unsigned long i = 0; i < SV_MAX; i++) {
    if (i >= a.f__M_len || i >= b.f__M_len) break;
    if (a.f__M_str[i] != b.f__M_str[i]) return a.f__M_str[i] < b.f__M_str[i] ? -1 : 1;
  }
  __CPROVER_assert(a.f__M_len <= SV_MAX || b.f__M_len <= SV_MAX, "string_view model: at least one operand within the modelled length");
  return a.f__M_len < b.f__M_len ? -1 : a.f__M_len > b.f__M_len ? 1 : 0;
}
static _Bool sv_equal(sv_t a, sv_t b) { return a.f__M_len == b.f__M_len && sv_cmp3(a, b) == 0; }
#endif
