/* C15: every derived interface operation equals its definition in terms of the primitives, on every node.
   The nodes are FOREIGN objects (dynamic class unknown: __cls == 0), so every primitive accessor is an arbitrary function:
   its value is a fixed nondeterministic harness variable, and each model asserts it was asked on the right node. */
#define NEW(T) ((T*)memset_zero(malloc(sizeof(T)), sizeof(T)))
static void* memset_zero(void* p, unsigned long n) { __CPROVER_assume(p != 0); __builtin_memset(p, 0, n); return p; }
#define MODEL0(RET, STUB, SELF_T, RECV, VAL) RET STUB(SELF_T* self) { __CPROVER_assert((void*)self == (void*)(RECV), "C15: primitive " #STUB " is queried on the node the operation was applied to"); return VAL; }

typedef struct S_ZTSN3ipr8SequenceINS_4ExprEEE seqE_t;  typedef struct S_ZTSN3ipr8SequenceINS_4TypeEEE seqT_t;
typedef struct S_ZTSN3ipr8SequenceINS_4DeclEEE seqD_t;  typedef struct S_ZTSN3ipr8SequenceINS_7HandlerEEE seqH_t;
typedef struct S_ZTSN3ipr8SequenceINS_9ParameterEEE seqP_t;
typedef struct S_ZTSN3ipr8SequenceINS_4ExprEE8IteratorE itE_t; typedef struct S_ZTSN3ipr8SequenceINS_4DeclEE8IteratorE itD_t;
typedef struct S_ZTSN3ipr8SequenceINS_9ParameterEE8IteratorE itP_t;
typedef struct S_ZTSN3ipr4ExprE expr_t; typedef struct S_ZTSN3ipr4TypeE type_t;

/* ---- Sequence<Expr>: size() = SZ; get(i) = element function tracked exactly at one arbitrary index K0 */
static seqE_t* S; static unsigned long SZ; static unsigned long K0; static expr_t* E0;
MODEL0(unsigned long, @{virt:seqE_size}, seqE_t, S, SZ)
expr_t* @{virt:seqE_get}(seqE_t* self, unsigned long i) { __CPROVER_assert(self == S, "C15: get is asked of the sequence iterated"); return i == K0 ? E0 : (expr_t*)nondet_ptr(); }
static void init_seq(void) { S = NEW(seqE_t); SZ = nondet_ulong(); K0 = nondet_ulong(); E0 = NEW(expr_t); }

void h_sequence(void)
{
  init_seq();
  __CPROVER_assert(@{seq_empty}(S) == (SZ == 0), "C15: empty() is size() == 0");
  itE_t b = @{seq_begin}(S), e = @{seq_end}(S), pk = @{seq_position}(S, K0);
  __CPROVER_assert(@{it_eq}(b, @{seq_position}(S, 0)), "C15: begin() is position 0");
  __CPROVER_assert(@{it_eq}(e, @{seq_position}(S, SZ)), "C15: end() is position size()");
  __CPROVER_assert(@{it_deref}(pk) == E0 && @{it_arrow}(pk) == E0, "C15/C14: the iterator at position k designates element k (* and ->)");
  __CPROVER_assert(@{it_eq}(b, e) == (SZ == 0), "C15: begin() == end() exactly for an empty sequence");
  unsigned long j = nondet_ulong();
  itE_t pj = @{seq_position}(S, j);
  __CPROVER_assert(@{it_eq}(pk, pj) == (K0 == j) && @{it_ne}(pk, pj) == (K0 != j), "C15: iterators of one sequence are equal exactly at equal positions; != is the negation");
  seqE_t* other = NEW(seqE_t);
  itE_t foreign; foreign.f_seq = other; foreign.f_index = K0;
  __CPROVER_assert(!@{it_eq}(pk, foreign), "C15: iterators into different sequences differ");
  if (j < ~0UL) __CPROVER_assert(@{it_eq}(@{it_preinc}(pj), @{seq_position}(S, j + 1)), "C14: ++ moves to the next position (so begin() reaches end() after exactly size() steps)");
  if (j > 0) __CPROVER_assert(@{it_eq}(@{it_predec}(pj), @{seq_position}(S, j - 1)), "C14: -- moves to the previous position");
  itE_t after; itE_t r = @{it_postinc}(pj, &after);
  if (j < ~0UL) __CPROVER_assert(@{it_eq}(r, pj) && @{it_eq}(after, @{seq_position}(S, j + 1)), "C14: post-increment yields the old position and advances");
  r = @{it_postdec}(pj, &after);
  if (j > 0) __CPROVER_assert(@{it_eq}(r, pj) && @{it_eq}(after, @{seq_position}(S, j - 1)), "C14: post-decrement yields the old position and retreats");
  IPR_CANARY_POINT();
}

/* ---- Product / Sum / Expr_list: size and indexing through elements() */
typedef struct S_ZTSN3ipr7ProductE product_t; typedef struct S_ZTSN3ipr3SumE sum_t; typedef struct S_ZTSN3ipr9Expr_listE elist_t;
static void* OWNER; static seqT_t* ST; static unsigned long SZT; static unsigned long KT; static type_t* T0;
seqT_t* @{virt:unary_seqT_operand}(struct S_ZTSN3ipr11Basic_unaryIRKNS_8SequenceINS_4TypeEEEEE* self) { return ST; }
MODEL0(unsigned long, @{virt:seqT_size}, seqT_t, ST, SZT)
type_t* @{virt:seqT_get}(seqT_t* self, unsigned long i) { __CPROVER_assert(self == ST, "C15: indexing asks the product's own element sequence"); return i == KT ? T0 : (type_t*)nondet_ptr(); }
seqE_t* @{virt:unary_seqE_operand}(struct S_ZTSN3ipr11Basic_unaryIRKNS_8SequenceINS_4ExprEEEEE* self) { return S; }
void h_product_sum(void)
{
  ST = NEW(seqT_t); SZT = nondet_ulong(); KT = nondet_ulong(); T0 = NEW(type_t); init_seq();
  product_t* p = NEW(product_t); sum_t* s = NEW(sum_t); elist_t* l = NEW(elist_t);
  __CPROVER_assert(@{product_size}(p) == SZT && @{sum_size}(s) == SZT, "C15: size of a product / sum is the size of its element sequence");
  __CPROVER_assert(@{product_at}(p, KT) == T0 && @{sum_at}(s, KT) == T0, "C15: product[i] / sum[i] is element i of its element sequence");
  __CPROVER_assert(@{expr_list_size}(l) == SZ, "C15: size of an expression list is the size of its element sequence");
  IPR_CANARY_POINT();
}

/* ---- Scope and Parameter_list: size / begin / end through elements() */
typedef struct S_ZTSN3ipr5ScopeE scope_t; typedef struct S_ZTSN3ipr14Parameter_listE plist_t;
static scope_t* SC; static seqD_t* SD; static unsigned long SZD; static plist_t* PL; static seqP_t* SP; static unsigned long SZP;
MODEL0(seqD_t*, @{virt:scope_elements}, scope_t, SC, SD)
MODEL0(unsigned long, @{virt:seqD_size}, seqD_t, SD, SZD)
MODEL0(seqP_t*, @{virt:plist_elements}, plist_t, PL, SP)
MODEL0(unsigned long, @{virt:seqP_size}, seqP_t, SP, SZP)
void h_scope_plist(void)
{
  SC = NEW(scope_t); SD = NEW(seqD_t); SZD = nondet_ulong(); PL = NEW(plist_t); SP = NEW(seqP_t); SZP = nondet_ulong();
  __CPROVER_assert(@{scope_size}(SC) == SZD, "C15: size of a scope is the size of its elements");
  itD_t b = @{scope_begin}(SC), e = @{scope_end}(SC);
  __CPROVER_assert(b.f_seq == SD && b.f_index == 0 && e.f_seq == SD && e.f_index == SZD, "C15: begin()/end() of a scope are those of its elements");
  __CPROVER_assert(@{plist_size}(PL) == SZP, "C15: size of a parameter list is the size of its elements");
  itP_t pb = @{plist_begin}(PL), pe = @{plist_end}(PL);
  __CPROVER_assert(pb.f_seq == SP && pb.f_index == 0 && pe.f_seq == SP && pe.f_index == SZP, "C15: begin()/end() of a parameter list are those of its elements");
  IPR_CANARY_POINT();
}

/* ---- user-defined types: scope and members versus the region */
typedef struct S_ZTSN3ipr6RegionE region_t; typedef struct S_ZTSN3ipr5ClassE class_t; typedef struct S_ZTSN3ipr5UnionE union_t;
typedef struct S_ZTSN3ipr9NamespaceE namespace_t; typedef struct S_ZTSN3ipr4EnumE enum_t;
static region_t* RG;
region_t* @{virt:udtD_region}(struct S_ZTSN3ipr3UdtINS_4DeclEEE* self) { __CPROVER_assert((void*)self == OWNER, "C15: region() is asked of the type itself"); return RG; }
region_t* @{virt:udtE_region}(struct S_ZTSN3ipr3UdtINS_10EnumeratorEEE* self) { __CPROVER_assert((void*)self == OWNER, "C15: region() is asked of the enumeration itself"); return RG; }
MODEL0(scope_t*, @{virt:region_bindings}, region_t, RG, SC)
void h_udt(void)
{
  SC = NEW(scope_t); SD = NEW(seqD_t); RG = NEW(region_t);
  int which = nondet_int();
  if (which == 0) { class_t* c = NEW(class_t); OWNER = c; __CPROVER_assert(@{class_scope}(c) == SC, "C15: a class's scope is its region's bindings"); __CPROVER_assert(@{class_members}(c) == SD, "C15: a class's members are the elements of its scope"); IPR_CANARY_POINT(); }
  else if (which == 1) { union_t* c = NEW(union_t); OWNER = c; __CPROVER_assert(@{union_members}(c) == SD, "C15: a union's members are the elements of its scope"); IPR_CANARY_POINT(); }
  else if (which == 2) { namespace_t* c = NEW(namespace_t); OWNER = c; __CPROVER_assert(@{namespace_members}(c) == SD, "C15: a namespace's members are the elements of its scope"); IPR_CANARY_POINT(); }
  else { enum_t* c = NEW(enum_t); OWNER = c; __CPROVER_assert(@{enum_scope}(c) == SC, "C15: an enumeration's scope is its region's bindings"); IPR_CANARY_POINT(); }
}

/* ---- Block: body and the is-a-try-block test */
typedef struct S_ZTSN3ipr5BlockE block_t;
static block_t* BL; static seqH_t* SH; static unsigned long SZH;
MODEL0(region_t*, @{virt:block_region}, block_t, BL, RG)
MODEL0(seqH_t*, @{virt:block_handlers}, block_t, BL, SH)
MODEL0(seqE_t*, @{virt:region_body}, region_t, RG, S)
MODEL0(unsigned long, @{virt:seqH_size}, seqH_t, SH, SZH)
void h_block(void)
{
  BL = NEW(block_t); RG = NEW(region_t); SH = NEW(seqH_t); SZH = nondet_ulong(); init_seq();
  __CPROVER_assert(@{block_body}(BL) == S, "C15: a block's body is its region's body");
  __CPROVER_assert(@{block_try}(BL) == (SZH > 0), "C15: a block is a try-block exactly when it has handlers");
  IPR_CANARY_POINT();
}

/* ---- Template, Parameter, Type::linkage, Transfer */
typedef struct S_ZTSN3ipr8TemplateE template_t; typedef struct S_ZTSN3ipr7MappingE mapping_t; typedef struct S_ZTSN3ipr9ParameterE param_t;
typedef struct S_ZTSN3ipr8TransferE transfer_t; typedef struct S_ZTSN3ipr7LinkageE linkage_t; typedef struct S_ZTSN3ipr18Calling_conventionE cc_t;
typedef struct S_ZTSN3ipr8OptionalINS_4ExprEEE optE_t;
static template_t* TP; static mapping_t* MP; static expr_t* RES; static param_t* PR; static optE_t INIT; static type_t* TY; static transfer_t* XF; static linkage_t* LK; static cc_t* CC;
MODEL0(mapping_t*, @{virt:template_mapping}, template_t, TP, MP)
plist_t* @{virt:mapping_parameters}(struct S_ZTSN3ipr16ParameterizationINS_4ExprEEE* self) { __CPROVER_assert((void*)self == (void*)&MP->__b1, "C15: parameters() is asked of the template's mapping"); return PL; }
expr_t* @{virt:mapping_result}(struct S_ZTSN3ipr16ParameterizationINS_4ExprEEE* self) { __CPROVER_assert((void*)self == (void*)&MP->__b1, "C15: result() is asked of the template's mapping"); return RES; }
optE_t @{virt:decl_initializer}(struct S_ZTSN3ipr4DeclE* self) { __CPROVER_assert((void*)self == (void*)PR, "C15: initializer() is asked of the parameter itself"); return INIT; }
MODEL0(transfer_t*, @{virt:type_transfer}, type_t, TY, XF)
/* transfers: finite lookup over the harness's transfer objects (an arbitrary function of the receiver) */
static transfer_t* XT[3]; static linkage_t* XL[3]; static cc_t* XC[3];
linkage_t* @{virt:transfer_first}(struct S_ZTSN3ipr12Basic_binaryIRKNS_7LinkageERKNS_18Calling_conventionEEE* self)
{ if ((void*)self == (void*)XF) return LK; for (int i = 0; i < 3; i++) if ((void*)self == (void*)XT[i]) return XL[i]; __CPROVER_assert(0, "C15: first() asked of an unknown transfer"); return 0; }
cc_t* @{virt:transfer_second}(struct S_ZTSN3ipr12Basic_binaryIRKNS_7LinkageERKNS_18Calling_conventionEEE* self)
{ if ((void*)self == (void*)XF) return CC; for (int i = 0; i < 3; i++) if ((void*)self == (void*)XT[i]) return XC[i]; __CPROVER_assert(0, "C15: second() asked of an unknown transfer"); return 0; }
void h_misc(void)
{
  TP = NEW(template_t); MP = NEW(mapping_t); PL = NEW(plist_t); RES = NEW(expr_t); PR = NEW(param_t); TY = NEW(type_t); XF = NEW(transfer_t);
  LK = NEW(linkage_t); CC = NEW(cc_t); INIT.f_ptr = nondet_bool() ? NEW(expr_t) : 0;
  RES->__b0.f_category = nondet_int();      /* the mapping's result is a node of ANY kind (possibly itself a mapping) */
  TY->__b0.__b0.f_category = nondet_int(); PR->__b0.__b0.__b0.__b0.__b0.f_category = nondet_int();
  __CPROVER_assert(@{template_parameters}(TP) == PL && @{template_result}(TP) == RES, "C15: a template's parameters / result are those of its mapping");
  __CPROVER_assert(@{parameter_default}(PR).f_ptr == INIT.f_ptr, "C15: a parameter's default value is its initializer (absent when there is none)");
  __CPROVER_assert(@{type_linkage}(TY) == LK, "C15: a type's linkage is the linkage of its transfer");
  __CPROVER_assert(@{transfer_linkage}(XF) == LK && @{transfer_convention}(XF) == CC, "C15: a transfer's linkage / convention are its first / second component");
  IPR_CANARY_POINT();
}

/* ---- equality on logograms, conventions, linkages, transfers, basic specifiers / qualifiers, strings:
   an equivalence that holds exactly for equal spellings.  By C03 a spelling is one String node, so "spelled the same"
   is identity of the String a logogram yields.  Three symbolic values of each kind; spellings drawn from two Strings. */
typedef struct S_ZTSN3ipr8LogogramE logo_t; typedef struct S_ZTSN3ipr6StringE string_t;
static logo_t* LG[3]; static string_t* SPELL[3];
string_t* @{virt:logo_operand}(struct S_ZTSN3ipr11Basic_unaryIRKNS_6StringEEE* self)
{ for (int i = 0; i < 3; i++) if ((void*)self == (void*)LG[i]) return SPELL[i]; __CPROVER_assert(0, "C15: operand() asked of an unknown logogram"); return 0; }
#define EQUIV(EQ, x, same01, same12, same02, what) \
  __CPROVER_assert(EQ(x[0], x[0]), "C15: " what " equality is reflexive"); \
  __CPROVER_assert(EQ(x[0], x[1]) == EQ(x[1], x[0]), "C15: " what " equality is symmetric"); \
  __CPROVER_assert(!(EQ(x[0], x[1]) && EQ(x[1], x[2])) || EQ(x[0], x[2]), "C15: " what " equality is transitive"); \
  __CPROVER_assert(EQ(x[0], x[1]) == (same01) && EQ(x[1], x[2]) == (same12) && EQ(x[0], x[2]) == (same02), "C15: " what " values are equal exactly when spelled the same")
void h_equality(void)
{
  string_t* s0 = NEW(string_t); string_t* s1 = NEW(string_t);
  for (int i = 0; i < 3; i++) { LG[i] = NEW(logo_t); SPELL[i] = nondet_bool() ? s0 : s1; }
  if (nondet_bool()) LG[1] = LG[0];                      /* the very same logogram object is allowed too */
  if (LG[1] == LG[0]) SPELL[1] = SPELL[0];
  #define SAME(i, j) (SPELL[i] == SPELL[j])
  EQUIV(@{logo_eq}, LG, SAME(0,1), SAME(1,2), SAME(0,2), "logogram");
  __CPROVER_assert(@{logo_ne}(LG[0], LG[1]) == !@{logo_eq}(LG[0], LG[1]), "C15: logogram != is the negation of ==");
  cc_t cc[3]; linkage_t lk[3]; cc_t* ccp[3]; linkage_t* lkp[3];
  for (int i = 0; i < 3; i++) { cc[i].f_conv = LG[i]; lk[i].f_lang = LG[i]; ccp[i] = &cc[i]; lkp[i] = &lk[i]; }
  EQUIV(@{cc_eq}, ccp, SAME(0,1), SAME(1,2), SAME(0,2), "calling-convention");
  EQUIV(@{link_eq}, lkp, SAME(0,1), SAME(1,2), SAME(0,2), "linkage");
  __CPROVER_assert(@{cc_ne}(ccp[0], ccp[1]) == !@{cc_eq}(ccp[0], ccp[1]) && @{link_ne}(lkp[0], lkp[1]) == !@{link_eq}(lkp[0], lkp[1]), "C15: != is the negation of == (conventions, linkages)");
  /* transfers: linkage and convention chosen independently */
  int li[3], ci[3];
  for (int i = 0; i < 3; i++) { XT[i] = NEW(transfer_t); li[i] = nondet_int(); ci[i] = nondet_int(); __CPROVER_assume(0 <= li[i] && li[i] < 3 && 0 <= ci[i] && ci[i] < 3); XL[i] = &lk[li[i]]; XC[i] = &cc[ci[i]]; }
  #define XSAME(i, j) (SAME(li[i], li[j]) && SAME(ci[i], ci[j]))
  EQUIV(@{xfer_eq}, XT, XSAME(0,1), XSAME(1,2), XSAME(0,2), "transfer");
  __CPROVER_assert(@{xfer_ne}(XT[0], XT[1]) == !@{xfer_eq}(XT[0], XT[1]) && @{xfer_ne}(XT[1], XT[2]) == !XSAME(1,2), "C15: transfer != is the negation of ==");
  /* basic specifiers / qualifiers wrap a logogram object: equal when it is the same logogram, and equal values are spelled the same */
  struct S_ZTSN3ipr15Basic_specifierE bs[3]; struct S_ZTSN3ipr15Basic_qualifierE bq[3];
  for (int i = 0; i < 3; i++) { bs[i].f_spec = LG[i]; bq[i].f_qual = LG[i]; }
  __CPROVER_assert(@{bspec_eq}(bs[0], bs[0]) && @{bspec_eq}(bs[0], bs[1]) == @{bspec_eq}(bs[1], bs[0]) && (!(@{bspec_eq}(bs[0], bs[1]) && @{bspec_eq}(bs[1], bs[2])) || @{bspec_eq}(bs[0], bs[2])), "C15: basic-specifier equality is an equivalence");
  __CPROVER_assert((LG[0] == LG[1]) == @{bspec_eq}(bs[0], bs[1]) && (!@{bspec_eq}(bs[0], bs[1]) || SAME(0,1)), "C15: basic specifiers are equal exactly when they are the same name");
  __CPROVER_assert(@{bqual_eq}(bq[0], bq[0]) && (LG[0] == LG[1]) == @{bqual_eq}(bq[0], bq[1]) && (!@{bqual_eq}(bq[0], bq[1]) || SAME(0,1)), "C15: basic qualifiers are equal exactly when they are the same name");
  __CPROVER_assert(@{string_eq}(s0, s0) && !@{string_eq}(s0, s1), "C15: Strings are equal exactly when they are the same node");
  __CPROVER_assert(@{bspec_ne}(bs[0], bs[1]) == !@{bspec_eq}(bs[0], bs[1]) && @{bqual_ne}(bq[0], bq[1]) == !@{bqual_eq}(bq[0], bq[1]) && !@{string_ne}(s0, s0) && @{string_ne}(s0, s1), "C15: != is the negation of == (basic specifiers, basic qualifiers, strings)");
  IPR_CANARY_POINT();
}
