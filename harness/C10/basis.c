/* C10: mapping of basic names, named accessors, decomposition.  Tables are the constant objects of /repo as evaluated by clang. */
typedef struct S_ZTSN3ipr4impl7LexiconE lex_t;
typedef struct S_ZTSN3ipr15Basic_specifierE bspec_t;
typedef struct S_ZTSN3ipr15Basic_qualifierE bqual_t;
typedef struct S_ZTSN3ipr8LogogramE logo_t;
typedef struct S_ZTSN3ipr4impl12_GLOBAL__N_114std_identifierE word_t;
#define SPECS g__ZN3ipr4impl12_GLOBAL__N_114std_specifiersE
#define QUALS g__ZN3ipr4impl12_GLOBAL__N_114std_qualifiersE
#define WORDS g__ZN3ipr4impl12_GLOBAL__N_111known_wordsE
/* table sizes are those of the current source (a basic name or reserved word added upstream gets covered, not a false alarm) */
#define NSPEC ((int)(sizeof(SPECS) / sizeof(SPECS[0])))
#define NQUAL ((int)(sizeof(QUALS) / sizeof(QUALS[0])))
#define NWORD ((int)(sizeof(WORDS) / sizeof(WORDS[0])))

/* ghost recorder behind std::vector<...>::push_back (assumed: appends a copy) */
/* the result vector is returned by value: copying / moving it hands over the same recorded contents */
void __ipr_container_copy(void* dst, void* src, const char* what) { }
void __ipr_vec_init(void* vec, unsigned long n) { __CPROVER_assert(n == 0, "decompose starts from an empty vector"); }
static const logo_t* out[64]; static unsigned n_out;
void @{spec_push_back}(void* self, bspec_t* x) { __CPROVER_assert(n_out < 64, "vector model capacity"); out[n_out++] = x->f_spec; }
void @{qual_push_back}(void* self, bqual_t* x) { __CPROVER_assert(n_out < 64, "vector model capacity"); out[n_out++] = x->f_qual; }

static lex_t* any_lexicon(void) { lex_t* l = malloc(sizeof *l); __CPROVER_assume(l != 0); return l; }   /* contents arbitrary: these members use none of it */

/* spelling of a reserved word entry, read from the constant table */
static int word_is(const logo_t* l, const char* name)
{
  for (int k = 0; k < NWORD; k++) if (&WORDS[k].__b1 == l) {
    unsigned long n = WORDS[k].f_str.f_txt.f__M_len; const unsigned char* p = WORDS[k].f_str.f_txt.f__M_str;
    unsigned long m = 0; while (name[m]) m++;
    if (m != n) return 0;
    for (unsigned long j = 0; j < 20; j++) if (j < n && p[j] != (unsigned char)name[j]) return 0;
    return 1;
  }
  return 0;
}
static int spec_index(const char* name) { for (int i = 0; i < NSPEC; i++) if (word_is(SPECS[i].f_spec, name)) return i; return -1; }
static int qual_index(const char* name) { for (int i = 0; i < NQUAL; i++) if (word_is(QUALS[i].f_qual, name)) return i; return -1; }

/* ---- each basic name maps to a distinct non-empty set; unknown names are refused */
void h_spec_map(void)
{
  lex_t* lex = any_lexicon();
  unsigned i = nondet_uchar(), j = nondet_uchar(); __CPROVER_assume(i < NSPEC && j < NSPEC);
  unsigned long si = @{specifiers}(lex, SPECS[i]), sj = @{specifiers}(lex, SPECS[j]);
  __CPROVER_assert(si != 0, "C10: a basic specifier maps to a non-empty set");
  __CPROVER_assert((i != j) == (si != sj), "C10: different basic specifiers map to different sets, the same one to the same set");
  __CPROVER_assert((i != j) ==> ((si & sj) == 0), "C10: sets of different basic specifiers are disjoint (single elements)");
  IPR_CANARY_POINT();
}
void h_qual_map(void)
{
  lex_t* lex = any_lexicon();
  unsigned i = nondet_uchar(), j = nondet_uchar(); __CPROVER_assume(i < NQUAL && j < NQUAL);
  unsigned long si = @{qualifiers}(lex, QUALS[i]), sj = @{qualifiers}(lex, QUALS[j]);
  __CPROVER_assert(si != 0, "C10: a basic qualifier maps to a non-empty set");
  __CPROVER_assert((i != j) == (si != sj), "C10: different basic qualifiers map to different sets, the same one to the same set");
  __CPROVER_assert((i != j) ==> ((si & sj) == 0), "C10: sets of different basic qualifiers are disjoint (single elements)");
  IPR_CANARY_POINT();
}
void h_unknown(void)
{
  lex_t* lex = any_lexicon();
  logo_t* stranger = __CPROVER_allocate(sizeof *stranger, 1);   /* a logogram that is not a table entry: a foreign node (class id 0; an interface node has no other state) */
  __ipr_allow_exc = IPR_ALLOW_ANY;
  if (nondet_bool()) { bspec_t b; b.f_spec = stranger; @{specifiers}(lex, b); __CPROVER_assert(0, "C10: asking for the set of an unknown specifier name is refused, not answered"); }
  else { bqual_t b; b.f_qual = stranger; @{qualifiers}(lex, b); __CPROVER_assert(0, "C10: asking for the set of an unknown qualifier name is refused, not answered"); }
}
void h_unknown_canary(void)   /* vacuity guard for h_unknown: the same calls with a known name do return */
{
  lex_t* lex = any_lexicon();
  @{specifiers}(lex, SPECS[0]); @{qualifiers}(lex, QUALS[0]);
  IPR_CANARY_POINT();
}

/* ---- named accessors equal the mapping of their own name (looked up by spelling in the table) */
#define ACC_S(fn, name) { int k = spec_index(name); __CPROVER_assert(k >= 0, "C10: accessor name " name " is a basic specifier"); \
    __CPROVER_assert(fn(lex) == @{specifiers}(lex, SPECS[k < 0 ? 0 : k]), "C10: accessor for " name " equals the mapping of its own name"); }
#define ACC_Q(fn, name) { int k = qual_index(name); __CPROVER_assert(k >= 0, "C10: accessor name " name " is a basic qualifier"); \
    __CPROVER_assert(fn(lex) == @{qualifiers}(lex, QUALS[k < 0 ? 0 : k]), "C10: accessor for " name " equals the mapping of its own name"); }
void h_accessors(void)
{
  lex_t* lex = any_lexicon();
  ACC_S(@{export_specifier}, "export") ACC_S(@{static_specifier}, "static") ACC_S(@{extern_specifier}, "extern") ACC_S(@{mutable_specifier}, "mutable")
  ACC_S(@{thread_local_specifier}, "thread_local") ACC_S(@{register_specifier}, "register") ACC_S(@{inline_specifier}, "inline")
  ACC_S(@{consteval_specifier}, "consteval") ACC_S(@{constexpr_specifier}, "constexpr") ACC_S(@{virtual_specifier}, "virtual")
  ACC_S(@{abstract_specifier}, "=0") ACC_S(@{explicit_specifier}, "explicit") ACC_S(@{friend_specifier}, "friend") ACC_S(@{typedef_specifier}, "typedef")
  ACC_S(@{public_specifier}, "public") ACC_S(@{protected_specifier}, "protected") ACC_S(@{private_specifier}, "private")
  ACC_Q(@{const_qualifier}, "const") ACC_Q(@{volatile_qualifier}, "volatile") ACC_Q(@{restrict_qualifier}, "restrict")
  IPR_CANARY_POINT();
}

/* ---- decomposition: for EVERY subset (symbolic selection mask) decomposing the union of the members' sets returns
   exactly that subset: none lost, none invented, none repeated */
static int spec_pos(const logo_t* l) { for (int i = 0; i < NSPEC; i++) if (SPECS[i].f_spec == l) return i; return -1; }
static int qual_pos(const logo_t* l) { for (int i = 0; i < NQUAL; i++) if (QUALS[i].f_qual == l) return i; return -1; }
void h_spec_decompose(void)
{
  lex_t* lex = any_lexicon();
  unsigned sel = nondet_uint(); __CPROVER_assume(sel < (1u << NSPEC));
  unsigned long m = 0; unsigned cnt = 0;
  for (int i = 0; i < NSPEC; i++) if ((sel >> i) & 1) { m |= @{specifiers}(lex, SPECS[i]);   /* | itself is proved in C10.algebra.* */ cnt++; }
  n_out = 0;
  @{decompose_spec}(lex, m);
  __CPROVER_assert(n_out == cnt, "C10: decomposition has exactly as many elements as the subset");
  unsigned k = nondet_uchar(); __CPROVER_assume(k < NSPEC);
  unsigned occurs = 0; int prev = -1;
  for (unsigned j = 0; j < NSPEC + 1; j++) if (j < n_out) { int p = spec_pos(out[j]);
      __CPROVER_assert(p >= 0, "C10: decomposition invents no element (each is a basic specifier)");
      __CPROVER_assert(p > prev, "C10: decomposition repeats no element (table order, strictly increasing)"); prev = p;
      if (p == (int)k) occurs++; }
  __CPROVER_assert(occurs == ((sel >> k) & 1), "C10: a basic specifier is in the decomposition exactly when it is in the subset");
  IPR_CANARY_POINT();
}
void h_spec_decompose_any(void)   /* arbitrary 64-bit value, including bits that belong to no basic specifier */
{
  lex_t* lex = any_lexicon();
  unsigned long m = nondet_ulong();
  n_out = 0; @{decompose_spec}(lex, m);
  unsigned k = nondet_uchar(); __CPROVER_assume(k < NSPEC);
  unsigned long sk = @{specifiers}(lex, SPECS[k]);
  unsigned occurs = 0;
  for (unsigned j = 0; j < NSPEC + 1; j++) if (j < n_out) { __CPROVER_assert(spec_pos(out[j]) >= 0, "C10: decomposition of any value invents no element"); if (out[j] == SPECS[k].f_spec) occurs++; }
  __CPROVER_assert(occurs == ((m & sk) == sk ? 1u : 0u), "C10: element listed exactly once when its set is included, never otherwise");
  __CPROVER_assert(n_out <= NSPEC, "C10: bits outside the basis contribute nothing");
  IPR_CANARY_POINT();
}
void h_qual_decompose(void)
{
  lex_t* lex = any_lexicon();
  unsigned sel = nondet_uchar(); __CPROVER_assume(sel < (1u << NQUAL));
  unsigned long m = 0; unsigned cnt = 0;
  for (int i = 0; i < NQUAL; i++) if ((sel >> i) & 1) { m |= @{qualifiers}(lex, QUALS[i]); cnt++; }
  unsigned long junk = nondet_ulong();           /* plus arbitrary bits that belong to no basic qualifier */
  for (int i = 0; i < NQUAL; i++) junk &= ~@{qualifiers}(lex, QUALS[i]);
  n_out = 0; @{decompose_qual}(lex, m | junk);
  __CPROVER_assert(n_out == cnt, "C10: qualifier decomposition has exactly as many elements as the subset");
  unsigned k = nondet_uchar(); __CPROVER_assume(k < NQUAL);
  unsigned occurs = 0; int prev = -1;
  for (unsigned j = 0; j < NQUAL + 1; j++) if (j < n_out) { int p = qual_pos(out[j]);
      __CPROVER_assert(p >= 0, "C10: qualifier decomposition invents no element");
      __CPROVER_assert(p > prev, "C10: qualifier decomposition repeats no element"); prev = p;
      if (p == (int)k) occurs++; }
  __CPROVER_assert(occurs == ((sel >> k) & 1), "C10: a basic qualifier is in the decomposition exactly when it is in the subset");
  IPR_CANARY_POINT();
}
