/* C10 K1: union, intersection, symmetric difference and implies are the set operations, over the whole 64-bit domain.
   Set membership of element i is bit i; the claim is stated per (symbolic) element, so it covers every element at once. */
#define s_or @{s_or}
#define s_and @{s_and}
#define s_xor @{s_xor}
#define s_or_eq @{s_or_eq}
#define s_and_eq @{s_and_eq}
#define s_xor_eq @{s_xor_eq}
#define s_implies @{s_implies}
#define q_or @{q_or}
#define q_and @{q_and}
#define q_xor @{q_xor}
#define q_or_eq @{q_or_eq}
#define q_and_eq @{q_and_eq}
#define q_xor_eq @{q_xor_eq}
#define q_implies @{q_implies}
#define BIT(x, i) (((x) >> (i)) & 1UL)
#define ALG(PFX, T) \
void h_##PFX(void) { \
  unsigned long a = nondet_ulong(), b = nondet_ulong(); unsigned i = nondet_uchar(); __CPROVER_assume(i < 64); \
  __CPROVER_assert(BIT(PFX##_or(a, b), i) == (BIT(a, i) | BIT(b, i)), "C10: | is set union"); \
  __CPROVER_assert(BIT(PFX##_and(a, b), i) == (BIT(a, i) & BIT(b, i)), "C10: & is set intersection"); \
  __CPROVER_assert(BIT(PFX##_xor(a, b), i) == (BIT(a, i) ^ BIT(b, i)), "C10: ^ is symmetric difference"); \
  __CPROVER_assert(PFX##_or_eq(a, b) == PFX##_or(a, b) && PFX##_and_eq(a, b) == PFX##_and(a, b) && PFX##_xor_eq(a, b) == PFX##_xor(a, b), "C10: compound assignments agree with the operators"); \
  _Bool imp = PFX##_implies(a, b); \
  __CPROVER_assert(imp == ((b & ~a) == 0), "C10: implies(a, b) holds exactly when b is a subset of a"); \
  if (imp) __CPROVER_assert(BIT(b, i) <= BIT(a, i), "C10: implies(a, b): every element of b is in a"); \
  IPR_CANARY_POINT(); }
ALG(s, S)
ALG(q, Q)
