/* C18: the printer's state clauses on the lowered real printer functions.
   Stream model (assumed, DESIGN.md 5.2): an std::ostream is (formatting flags, bytes written).  Character and string insertion
   append bytes and read no flag; insertion of an unsigned number formats it by the base flag -- asserted to be decimal at that
   moment; ostream_iterator copy appends bytes.  No other operation of the stream is called by the lowered code (checked
   against an allow-list when the unit is built), so nothing in the model can change the flags: a manipulator call shows up as a
   new std stub and makes the run undecided, the native sweep then decides it on the real code. */
typedef struct S_ZTSN3ipr7PrinterE printer_t; typedef struct S_ZTSSo ostream_t;
#define OUT_MAX 24
static ostream_t OS; static int OS_BASE = 10; static unsigned char OUT[OUT_MAX]; static int NOUT; static int NUMBERS; static int CONTROL; static int SUBPRINTS;
static unsigned char SPELL[4]; static unsigned long SPELL_LEN;      /* the spelling being printed (literal obligations): its own bytes may be control bytes */
static void emit(unsigned char c)
{
  _Bool from_spelling = 0; for (unsigned long i = 0; i < 4; i++) if (i < SPELL_LEN && SPELL[i] == c) from_spelling = 1;
  if (c < 0x20 && c != '\n' && !from_spelling) CONTROL++;
  if (NOUT < OUT_MAX) OUT[NOUT] = c; NOUT++;
}
ostream_t* @{os_char}(ostream_t* os, signed char c) { __CPROVER_assert(os == &OS, "output goes to the printer's own stream"); emit((unsigned char)c); return os; }
ostream_t* @{os_cstr}(ostream_t* os, signed char* s) { __CPROVER_assert(os == &OS, "output goes to the printer's own stream"); for (int i = 0; i < 16; i++) { if (s[i] == 0) break; emit((unsigned char)s[i]); } return os; }
ostream_t* @{os_ulong}(void* os, unsigned long n) { __CPROVER_assert(os == (void*)&OS, "output goes to the printer's own stream"); __CPROVER_assert(OS_BASE == 10, "C18: a number is written with the stream in decimal mode"); NUMBERS++; emit('0' + (unsigned char)(n % 10)); return (ostream_t*)os; }
__typeof__(@{os_copy}(0, 0, (struct S_ZTSSt16ostream_iteratorIccSt11char_traitsIcEE){0})) @{os_copy}(unsigned char* first, unsigned char* last, struct S_ZTSSt16ostream_iteratorIccSt11char_traitsIcEE it)
{ for (int i = 0; i < 16; i++) { if (first + i == last) break; emit(first[i]); } return it; }
unsigned char* @{sv_begin}(void* self) { return ((sv_t*)self)->f__M_str; }
unsigned char* @{sv_end}(void* self) { return ((sv_t*)self)->f__M_str + ((sv_t*)self)->f__M_len; }

/* the common contract of every sub-print: writes whatever it writes to the same stream (not recorded), leaves the indentation
   and the stream's formatting state as it found them; whether a line break is pending afterwards is arbitrary */
static void subprint(printer_t* pp) { SUBPRINTS++; pp->f_emit_newline = nondet_bool(); }
printer_t* @{print_expr}(printer_t* pp, __typeof__(@{xpr_expr_t}) x) { subprint(pp); return pp; }
printer_t* @{print_stmt}(printer_t* pp, __typeof__(@{xpr_stmt_t}) x) { subprint(pp); return pp; }
printer_t* @{print_decl}(printer_t* pp, __typeof__(@{xpr_decl_t}) x) { subprint(pp); return pp; }

/* contract of operator<<(Printer&, newline) (obligation C18.newline): a newline and the pending indentation are written, the pending-newline
   flag is cleared, the indentation is left as found */
printer_t* @{print_newline}(printer_t* pp, __typeof__(@{newline_t}) x) { emit('\n'); pp->f_emit_newline = 0; return pp; }
static printer_t* printer(int lo, int hi)
{
  printer_t* pp = NEWZ(printer_t);
  pp->f_stream = &OS; pp->f_emit_newline = nondet_bool();
  int ind; { int t_; ind = t_; } __CPROVER_assume(lo <= ind && ind <= hi);
  pp->f_pending_indentation = ind;
  return pp;
}
/*STMTS*/
/* the literal escaper: a spelling of <= 3 arbitrary bytes */
typedef struct S_ZTSN3ipr7LiteralE literal_t; typedef struct S_ZTSN3ipr6StringE string_t;
static string_t* LIT_STRING;
string_t* @{virt:literal_second}(void* self) { return LIT_STRING; }
sv_t @{virt:string_characters}(string_t* self) { sv_t v; v.f__M_len = SPELL_LEN; v.f__M_str = SPELL; return v; }
void h_literal(void)
{
  printer_t* pp = printer(0, 1000); literal_t* l = NEWZ(literal_t); LIT_STRING = NEWZ(string_t);
  SPELL_LEN = nondet_ulong(); __CPROVER_assume(SPELL_LEN <= 3);
  int d = @{pr_literal}(pp, l);
  __CPROVER_assert(d == 0, "C18: printing a literal leaves the indentation as found");
  __CPROVER_assert(CONTROL == 0, "C18: a literal's escapes write no control byte that is not a byte of its spelling");
  __CPROVER_assert(OS_BASE == 10 && NUMBERS == 0, "C18: a literal is printed without touching the stream's number formatting");
  __CPROVER_assert((unsigned long)NOUT >= SPELL_LEN, "C18: every character of the spelling is printed (verbatim or escaped)");
  IPR_CANARY_POINT();
}
typedef struct S_ZTSN3ipr9EnclosureE enclosure_t;
static int DELIM;
int @{virt:enclosure_delimiters}(enclosure_t* self) { return DELIM; }
void h_enclosure(void)
{
  printer_t* pp = printer(0, 1000); enclosure_t* e = NEWZ(enclosure_t);
  { int t_; DELIM = t_; } __CPROVER_assume(0 <= DELIM && DELIM <= 4);
  int d = @{pr_enclosure}(pp, e);
  __CPROVER_assert(d == 0 && SUBPRINTS == 1, "C18: an enclosure prints its expression once and leaves the indentation as found");
  __CPROVER_assert(CONTROL == 0, "C18: an enclosure writes no NUL or other control byte, whatever its delimiters");
  __CPROVER_assert(NOUT == (DELIM == 0 ? 0 : 2), "C18: an enclosure writes exactly its two delimiters (none for Delimiter::Nothing)");
  IPR_CANARY_POINT();
}
void h_numbers(void)
{
  printer_t* pp = printer(0, 1000); unsigned long l = nondet_ulong(), p = nondet_ulong();
  int d = @{pr_numbers}(pp, l, p);
  __CPROVER_assert(d == 0 && NUMBERS == 2, "C18: nesting levels and positions are written as numbers through the raw stream, in decimal (asserted at insertion)");
  IPR_CANARY_POINT();
}
void h_newline(void)
{
  printer_t* pp = printer(0, 6);
  int before = pp->f_pending_indentation;
  int d = @{pr_newline}(pp);
  __CPROVER_assert(d == 0 && pp->f_emit_newline == 0, "C18: a line break leaves the indentation as found and clears the pending-newline flag");
  __CPROVER_assert(NOUT == 1 + before && OUT[0] == '\n' && CONTROL == 0, "C18: a line break writes a newline and one space per indentation level");
  IPR_CANARY_POINT();
}
void h_newline_and_indent(void)
{
  printer_t* pp = printer(3, 6); int n = nondet_bool() ? 3 : -3;
  int d = @{pr_newline_and_indent}(pp, n);
  __CPROVER_assert(d == 0, "C18: newline_and_indent(n) moves the indentation by exactly n");
  IPR_CANARY_POINT();
}
