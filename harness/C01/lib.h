/* C01 helpers: foreign operand nodes (dynamic class unknown, __cls == 0) drawn from small pools, so that "same request"
   and "different request" are both reachable; every accessor of a foreign node is an arbitrary function (ext models). */
static void* zalloc(unsigned long n) { return __CPROVER_allocate(n, 1); }      /* fresh zero-initialised object at a constant address */
#define NEWZ(T) ((T*)zalloc(sizeof(T)))
typedef struct S_ZTSN3ipr4impl12type_factoryE factory_t;
typedef struct S_ZTSN3ipr4TypeE type_t;   typedef struct S_ZTSN3ipr4ExprE expr_t;
typedef struct S_ZTSN3ipr7ProductE product_t; typedef struct S_ZTSN3ipr3SumE sum_t;
#define NPOOL 3
static type_t* TY[NPOOL]; static expr_t* EX[NPOOL]; static product_t* PR[NPOOL]; static sum_t* SU[NPOOL];
static int pick(void) { int i = nondet_int(); __CPROVER_assume(0 <= i && i < NPOOL); return i; }
static factory_t* FAC;
static void pools(void)
{
  FAC = __CPROVER_allocate(sizeof *FAC, 0);      /* arbitrary contents (any prior state of the tables), constant address */
  for (int i = 0; i < NPOOL; i++) { TY[i] = NEWZ(type_t); EX[i] = NEWZ(expr_t); PR[i] = NEWZ(product_t); SU[i] = NEWZ(sum_t); }
}
static type_t* any_type(void) { return TY[pick()]; }
static expr_t* any_expr(void) { return EX[pick()]; }
static product_t* any_product(void) { return PR[pick()]; }
static sum_t* any_sum(void) { return SU[pick()]; }

/* ---- transfers, linkages, calling conventions, logograms, strings.
   XF[0] is the REAL natural transfer constant of the library; XF[1], XF[2] are foreign transfers whose linkage and
   convention are drawn from LKS / CCS.  Strings: STR[0] = the constant "C++", STR[1] = the constant empty string,
   STR[2], STR[3] = foreign words "a", "b" (one String node per spelling: C03). */
#ifdef WITH_TRANSFERS
#include "svmodel.h"
typedef struct S_ZTSN3ipr8TransferE transfer_t; typedef struct S_ZTSN3ipr7LinkageE linkage_t; typedef struct S_ZTSN3ipr18Calling_conventionE cc_t;
typedef struct S_ZTSN3ipr8LogogramE logo_t; typedef struct S_ZTSN3ipr6StringE string_t;
#define WORDS g__ZN3ipr4impl12_GLOBAL__N_111known_wordsE
static transfer_t* XF[3]; static linkage_t LKS[3]; static cc_t CCS[3]; static logo_t* LOGO[4]; static string_t* STR[4];
static int xf_l[3], xf_c[3];
static unsigned char spell_a[1] = { 'a' }, spell_b[1] = { 'b' };
string_t* @{virt:logo_operand}(struct S_ZTSN3ipr11Basic_unaryIRKNS_6StringEEE* self)
{ for (int i = 0; i < 4; i++) if ((void*)self == (void*)LOGO[i]) return STR[i]; __CPROVER_assert(0, "operand() of an unknown logogram"); return 0; }
sv_t @{virt:string_characters}(string_t* self)
{ sv_t v; v.f__M_len = 1; v.f__M_str = self == STR[2] ? spell_a : spell_b; __CPROVER_assert(self == STR[2] || self == STR[3], "characters() of an unknown string"); return v; }
linkage_t* @{virt:xfer_first}(struct S_ZTSN3ipr12Basic_binaryIRKNS_7LinkageERKNS_18Calling_conventionEEE* self)
{ for (int i = 1; i < 3; i++) if ((void*)self == (void*)XF[i]) return &LKS[xf_l[i]]; __CPROVER_assert(0, "first() of an unknown transfer"); return 0; }
cc_t* @{virt:xfer_second}(struct S_ZTSN3ipr12Basic_binaryIRKNS_7LinkageERKNS_18Calling_conventionEEE* self)
{ for (int i = 1; i < 3; i++) if ((void*)self == (void*)XF[i]) return &CCS[xf_c[i]]; __CPROVER_assert(0, "second() of an unknown transfer"); return 0; }
static void transfer_pools(void)
{
  /* the word C++ at the index clang's evaluation of the table gives (constant offset: cheap dereferencing) */
  { sv_t t = WORDS[@{word:C++}].f_str.f_txt; __CPROVER_assert(t.f__M_len == 3 && t.f__M_str[0] == 'C' && t.f__M_str[1] == '+' && t.f__M_str[2] == '+', "the reserved-word table has the word C++ at the index read from it"); }
  STR[0] = &WORDS[@{word:C++}].f_str.__b0.__b0.__b0;
  STR[1] = @{empty_string}();
  STR[2] = NEWZ(string_t); STR[3] = NEWZ(string_t);
  for (int i = 0; i < 4; i++) LOGO[i] = NEWZ(logo_t);
  for (int i = 0; i < 3; i++) { int a = nondet_int(), b = nondet_int(); __CPROVER_assume(0 <= a && a < 4 && 0 <= b && b < 4); LKS[i].f_lang = LOGO[a]; CCS[i].f_conv = LOGO[b]; }
  XF[0] = &g__ZN3ipr4impl12_GLOBAL__N_112natural_xferE.__b0;
  for (int i = 1; i < 3; i++) { XF[i] = NEWZ(transfer_t); xf_l[i] = nondet_int(); xf_c[i] = nondet_int(); __CPROVER_assume(0 <= xf_l[i] && xf_l[i] < 3 && 0 <= xf_c[i] && xf_c[i] < 3); }
}
/* spelling (= String node) of a transfer's linkage / convention */
static int logo_index(logo_t* l) { for (int i = 0; i < 4; i++) if (LOGO[i] == l) return i; return 0; }
static string_t* lk_spelling(linkage_t* l) { return STR[logo_index(l->f_lang)]; }
static string_t* cc_spelling(cc_t* c) { return STR[logo_index(c->f_conv)]; }
static string_t* xf_link_spelling(int i) { return i == 0 ? STR[0] : lk_spelling(&LKS[xf_l[i]]); }
static string_t* xf_conv_spelling(int i) { return i == 0 ? STR[1] : cc_spelling(&CCS[xf_c[i]]); }
static _Bool xf_same(int i, int j) { return xf_link_spelling(i) == xf_link_spelling(j) && xf_conv_spelling(i) == xf_conv_spelling(j); }
static _Bool xf_natural(int i) { return xf_same(i, 0); }
static int any_xf(void) { int i = nondet_int(); __CPROVER_assume(0 <= i && i < 3); return i; }
#endif

/* ---- type sequences: two foreign Sequence<Type> objects of symbolic length <= SEQ_MAX with elements from the type pool */
#ifdef WITH_SEQUENCES
#ifndef SEQ_MAX
#define SEQ_MAX 2
#endif
typedef struct S_ZTSN3ipr8SequenceINS_4TypeEEE seqT_t;
static seqT_t* SEQ[3]; static unsigned long SLEN[3]; static type_t* SEL[3][SEQ_MAX];
static int seq_index(seqT_t* s) { return s == SEQ[0] ? 0 : s == SEQ[1] ? 1 : 2; }
unsigned long @{virt:seqT_size}(seqT_t* self) { return SLEN[seq_index(self)]; }
type_t* @{virt:seqT_get}(seqT_t* self, unsigned long i) { __CPROVER_assert(i < SLEN[seq_index(self)], "get(i) within the sequence"); return SEL[seq_index(self)][i]; }
static void seq_pools(void)
{
  for (int s = 0; s < 3; s++) { SEQ[s] = NEWZ(seqT_t); SLEN[s] = nondet_ulong(); __CPROVER_assume(SLEN[s] <= SEQ_MAX); for (int i = 0; i < SEQ_MAX; i++) SEL[s][i] = any_type(); }
}
static _Bool seq_same(int a, int b) { if (SLEN[a] != SLEN[b]) return 0; for (int i = 0; i < SEQ_MAX; i++) if (i < SLEN[a] && SEL[a][i] != SEL[b][i]) return 0; return 1; }
#endif
