/* C04 helpers: operand pools for the name and atom constructors.  Strings of one obligation: STRS(0) = the REAL constant
   String of ONE reserved word (RW_INDEX / sp_rw, chosen per obligation variant: C, C++, int); STRS(1) = the REAL empty String;
   STRS(2), STRS(3) = foreign Strings spelled "a", "b" (one String node per spelling: C03).  One reserved word per run keeps every
   pointer into the reserved-word table at a constant offset (cbmc's dereferencing of merged offsets into a 56-element array of
   structs is what made the first version of these obligations take minutes).  get_string (interning) and word_if_known are
   used through their contracts restricted to this word universe; any other word fails an assertion. */
#include "svmodel.h"
static void* zalloc(unsigned long n) { return __CPROVER_allocate(n, 1); }      /* fresh zero-initialised object at a constant address */
#define NEWZ(T) ((T*)zalloc(sizeof(T)))
typedef struct S_ZTSN3ipr4impl12name_factoryE nfactory_t; typedef struct S_ZTSN3ipr4impl12expr_factoryE efactory_t;
typedef struct S_ZTSN3ipr4TypeE type_t; typedef struct S_ZTSN3ipr4ExprE expr_t; typedef struct S_ZTSN3ipr4NameE name_t;
typedef struct S_ZTSN3ipr6StringE string_t; typedef struct S_ZTSN3ipr10IdentifierE ident_t; typedef struct S_ZTSN3ipr8TemplateE template_t;
typedef struct S_ZTSN3ipr9Expr_listE elist_t; typedef struct S_ZTSN3ipr8LogogramE logo_t;
typedef struct S_ZTSN3ipr4impl12_GLOBAL__N_114std_identifierE word_t;
#define WORDS g__ZN3ipr4impl12_GLOBAL__N_111known_wordsE
#define NSTR 4
#define NPOOL 3
static efactory_t* FAC; static nfactory_t* NFAC;
/* pools are scalars selected by explicit conditionals, and reserved words are addressed by the constant index clang's evaluation
   of the table gives (checked below): pointers with constant offsets keep cbmc's dereferencing cheap */
static string_t *S0, *S1, *S4, *S5, *S6;      /* S6: a String node that is NOT this Lexicon's, spelled like S4 (any ipr::String may be handed to the constructors) */ static word_t *R0;
static string_t* STRS(int i) { return i == 0 ? S0 : i == 1 ? S1 : i == 2 ? S4 : S5; }
static _Bool spelled(word_t* w, const unsigned char* p, unsigned long n) { sv_t t = w->f_str.f_txt; if (t.f__M_len != n) return 0; for (unsigned long j = 0; j < 24; j++) if (j < n && t.f__M_str[j] != p[j]) return 0; return 1; }
static type_t* TY[NPOOL]; static expr_t* EX[NPOOL]; static name_t* NM[NPOOL]; static ident_t* ID[NPOOL]; static ident_t* ID_DEFAULT; static template_t* TP[NPOOL]; static elist_t* EL[NPOOL];
static unsigned char sp_a[1] = { 'a' }, sp_b[1] = { 'b' }, sp_default[7] = { 'd','e','f','a','u','l','t' };
static sv_t WV[NSTR];
static int pick(int n) { int i = nondet_int(); __CPROVER_assume(0 <= i && i < n); return i; }
#define STRING_OF_WORD(w) (&(w)->f_str.__b0.__b0.__b0)           /* impl::String -> ipr::String */
#define IDENT_OF_WORD(w) (&(w)->__b0.__b0)                        /* std_identifier -> impl::Node<Identifier> -> ipr::Identifier */
#define LOGO_OF_WORD(w) (&(w)->__b1)                              /* std_identifier -> ipr::Logogram */
sv_t @{virt:string_characters}(string_t* self)
{ sv_t v; v.f__M_len = 1; v.f__M_str = (self == S4 || self == S6) ? sp_a : sp_b; __CPROVER_assert(self == S4 || self == S5 || self == S6, "characters() of an unknown string"); return v; }
/* contract of name_factory::get_string = string_pool::intern (C03): the String node of that spelling */
string_t* @{get_string}(nfactory_t* self, sv_t w)
{ for (int i = 0; i < NSTR; i++) if (sv_equal(w, WV[i])) return STRS(i); __CPROVER_assert(0, "get_string of a word outside the harness pool"); return 0; }
/* contract of word_if_known (proved on the real binary search over the real table: obligation C03.word_if_known):
   the table entry spelled w, or null when no entry is spelled w -- restricted to this run's words: the reserved word, "", "a", "b"
   (neither "", "a" nor "b" is in the table: checked in pools()) */
word_t* @{word_if_known}(sv_t w)
{ if (sv_equal(w, WV[0])) return R0; __CPROVER_assert(sv_equal(w, WV[1]) || sv_equal(w, WV[2]) || sv_equal(w, WV[3]), "word_if_known of a word outside the harness pool"); return 0; }
/* contract of known_word(literal) (obligation C03.known_word): the table entry with that spelling; the library only calls it with
   string literals, so the scan below runs on constants */
word_t* @{known_word}(unsigned char* p)
{ unsigned long n = 0; while (n < 24 && p[n] != 0) n++;
  for (int k = 0; k < (int)(sizeof(WORDS) / sizeof(WORDS[0])); k++) if (spelled(&WORDS[k], p, n)) return &WORDS[k];
  __CPROVER_assert(0, "known_word of a spelling that is not reserved"); return 0; }
/* identifiers: foreign Identifier nodes spelled by foreign strings; ID_DEFAULT is the REAL reserved identifier `default` */
string_t* @{virt:unary_string_operand}(struct S_ZTSN3ipr11Basic_unaryIRKNS_6StringEEE* self)
{ for (int i = 0; i < NPOOL; i++) if ((void*)self == (void*)&ID[i]->__b0.__b1) return (i & 1) ? S5 : S4; __CPROVER_assert(0, "operand() of an unknown identifier / logogram"); return 0; }
static void pools(void)
{
  FAC = __CPROVER_allocate(sizeof *FAC, 0);      /* arbitrary contents (any prior state of the tables), constant address */
  NFAC = &FAC->__b0;                                                        /* expr_factory : name_factory */
  R0 = &WORDS[RW_INDEX];
  __CPROVER_assert(spelled(R0, sp_rw, sizeof sp_rw), "the reserved word of this run is at the index read from the table");
  for (int k = 0; k < (int)(sizeof(WORDS) / sizeof(WORDS[0])); k++) { sv_t t = WORDS[k].f_str.f_txt; __CPROVER_assert(t.f__M_len >= 1 && (t.f__M_len > 1 || (t.f__M_str[0] != 'a' && t.f__M_str[0] != 'b')), "neither the empty word nor a / b is reserved"); }
  S0 = STRING_OF_WORD(R0); S1 = @{empty_string}(); S4 = NEWZ(string_t); S5 = NEWZ(string_t); S6 = NEWZ(string_t);
  WV[0] = (sv_t){sizeof sp_rw, sp_rw}; WV[1] = (sv_t){0, sp_a}; WV[2] = (sv_t){1, sp_a}; WV[3] = (sv_t){1, sp_b};
  for (int i = 0; i < NPOOL; i++) { TY[i] = NEWZ(type_t); EX[i] = NEWZ(expr_t); NM[i] = NEWZ(name_t); ID[i] = NEWZ(ident_t); TP[i] = NEWZ(template_t); EL[i] = NEWZ(elist_t); }
  word_t* d = &WORDS[@{word:default}]; __CPROVER_assert(spelled(d, sp_default, 7), "default is a reserved word at the index read from the table"); ID_DEFAULT = IDENT_OF_WORD(d);
}
