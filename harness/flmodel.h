/* Assumed contract of std::forward_list as the farms and obj_list use it (DESIGN.md 5.2).  A list is the finite sequence of its
   elements; an iterator is modelled as the address of the element it designates (before_begin() = the address of the list
   itself, end() = null).  emplace_front / emplace_after link a NEW node (storage from the allocator, object constructed in place
   by the constructor clang selected -- cxx2c lowers that part from the real code) and never move, copy or free an existing
   element.  Capacity bounds (FL_MAX lists, FL_CAP elements each) are asserted, so a run that outgrows them is undecided. */
#ifndef IPR_FLMODEL_H
#define IPR_FLMODEL_H
#ifndef FL_MAX
#define FL_MAX 8
#endif
#ifndef FL_CAP
#define FL_CAP 4
#endif
static void* fl_list[FL_MAX]; static void* fl_flat[FL_MAX * FL_CAP];          /* one-dimensional on purpose: cbmc propagates constants through small 1-D arrays only */
#define fl_elem_at(s, k) fl_flat[(s) * FL_CAP + (k)]
static void* fl_dummy; static int fl_count[FL_MAX]; static int fl_n; static int fl_pushes;
static int fl_slot(void* list)
{
  for (int i = 0; i < FL_MAX; i++) if (i < fl_n && fl_list[i] == list) return i;
  __CPROVER_assert(fl_n < FL_MAX, "forward_list model: number of distinct lists within the harness bound");
  fl_list[fl_n] = list; fl_count[fl_n] = 0; return fl_n++;
}
static int fl_find(void* list) { for (int i = 0; i < FL_MAX; i++) if (i < fl_n && fl_list[i] == list) return i; return -1; }
static void fl_insert_at(int s, int at, void* node)
{
  __CPROVER_assert(fl_count[s] < FL_CAP, "forward_list model: list length within the harness bound");
  for (int k = FL_CAP - 1; k > 0; k--) if (k > at) fl_elem_at(s, k) = fl_elem_at(s, k - 1);
  fl_elem_at(s, at) = node; fl_count[s]++; fl_pushes++;
}
void __ipr_fl_push(void* list, void* node) { fl_insert_at(fl_slot(list), 0, node); }
void* __ipr_fl_front(void* list)
{
  int s = fl_find(list);
  __CPROVER_assert(s >= 0 && fl_count[s] > 0, "forward_list model: front() of a non-empty list");
  return fl_elem_at(s, 0);
}
void* __ipr_fl_insert_after(void* list, void* pos, void* node)
{
  int s = fl_slot(list);
  if (pos == list) { fl_insert_at(s, 0, node); return node; }            /* after before_begin() */
  for (int k = 0; k < FL_CAP; k++) if (k < fl_count[s] && fl_elem_at(s, k) == pos) { fl_insert_at(s, k + 1, node); return node; }
  __CPROVER_assert(0, "forward_list model: emplace_after at an iterator of this list"); return node;
}
/* sequence view used by the iterator models (lib/stdmodels.py): length, element at an index, index of an element (count for end) */
static int fl_length(void* list) { int s = fl_find(list); return s < 0 ? 0 : fl_count[s]; }
static void* fl_at(void* list, long k) { int s = fl_find(list); return (s >= 0 && k >= 0 && k < fl_count[s]) ? fl_elem_at(s, k) : (void*)0; }
static void* fl_begin_of(void* list) { return fl_at(list, 0); }
/* position of the element an iterator designates, in whichever list holds it; the end iterator (null) is handled by the callers */
static int fl_locate(void* elem, int* slot)
{
  for (int i = 0; i < FL_MAX; i++) if (i < fl_n) for (int k = 0; k < FL_CAP; k++) if (k < fl_count[i] && fl_elem_at(i, k) == elem) { *slot = i; return k; }
  *slot = -1; return -1;
}
#endif
