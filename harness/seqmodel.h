/* Assumed contracts of std::vector<const void*> and std::deque<T> as IPR uses them (DESIGN.md 5.2).
   vector<const void*> (ref_sequence, decl-sets, masters): a finite sequence of pointer VALUES; push_back appends; at(i) raises
   std::out_of_range for i >= size(); growth may relocate the slots but never changes the values.
   deque<T> (obj_sequence): emplace_back constructs a NEW element (cxx2c lowers allocation + the constructor clang selected from
   the real code) and appends it; existing elements keep their address; operator[] within bounds.
   Capacity bounds are asserted, so a run that outgrows them is undecided, not wrong. */
#ifndef IPR_SEQMODEL_H
#define IPR_SEQMODEL_H
#ifndef SEQ_OBJS
#define SEQ_OBJS 10
#endif
#ifndef SEQ_CAP
#define SEQ_CAP 5
#endif
#ifndef IPR_EXC_std__out_of_range
#define IPR_EXC_std__out_of_range 0x7ffffff1      /* odd: derived from std::logic_error */
#endif
static void* sq_obj[SEQ_OBJS]; static void* sq_flat[SEQ_OBJS * SEQ_CAP];      /* one-dimensional on purpose: cbmc propagates constants through small 1-D arrays only */
#define sq_elem_at(s, k) sq_flat[(s) * SEQ_CAP + (k)]
static void* sq_dummy; static unsigned long sq_size[SEQ_OBJS]; static int sq_n;
static int sq_find(void* o) { for (int i = 0; i < SEQ_OBJS; i++) if (i < sq_n && sq_obj[i] == o) return i; return -1; }
static int sq_slot(void* o)
{
  int s = sq_find(o); if (s >= 0) return s;
  __CPROVER_assert(sq_n < SEQ_OBJS, "sequence model: number of distinct containers within the harness bound");
  sq_obj[sq_n] = o; sq_size[sq_n] = 0; return sq_n++;
}
static void sq_append(void* o, void* v)
{
  int s = sq_slot(o);
  __CPROVER_assert(sq_size[s] < SEQ_CAP, "sequence model: container length within the harness bound");
  sq_elem_at(s, sq_size[s]) = v; sq_size[s]++;
}
static unsigned long sq_length(void* o) { int s = sq_find(o); return s < 0 ? 0 : sq_size[s]; }
void __ipr_vec_init(void* vec, unsigned long n)
{
  if (n == 0 && sq_find(vec) < 0) return;            /* an empty container needs no record: unknown containers are empty */
  int s = sq_slot(vec);
  __CPROVER_assert(n <= SEQ_CAP, "sequence model: initial vector size within the harness bound");
  for (int k = 0; k < SEQ_CAP; k++) sq_elem_at(s, k) = 0;
  sq_size[s] = n;
}
void __ipr_container_copy(void* dst, void* src, const char* what)
{
  int a = sq_find(src); int d = sq_slot(dst);
  sq_size[d] = a < 0 ? 0 : sq_size[a];
  for (int k = 0; k < SEQ_CAP; k++) sq_elem_at(d, k) = a < 0 ? (void*)0 : sq_elem_at(a, k);
}
void __ipr_dq_push(void* deque, void* node) { sq_append(deque, node); }
#endif
