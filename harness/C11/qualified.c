/* C11: qualified types are in normal form.  type_factory::get_qualified on the lowered real code; the table's insert is used
   through its contract (insert_stub.h), with the real comparator and the real element constructor. */
typedef struct S_ZTSN3ipr4impl12type_factoryE factory_t;
typedef struct S_ZTSN3ipr4TypeE type_t;
typedef struct S_ZTSN3ipr9QualifiedE iqual_t;                      /* interface class ipr::Qualified */
typedef __typeof__(*@{make_node}(0, 0)) qnode_t;                   /* rb_tree::node<impl::Qualified> */
typedef __typeof__(((qnode_t*)0)->f_data) qual_t;                  /* impl::Qualified */
typedef __typeof__(((qual_t*)0)->f_rep) rep_t;                     /* its key: { qualifiers, main variant } */
typedef __typeof__(((factory_t*)0)->f_qualifieds) table_t;
#define CAT(n) ((n)->__b0.__b0.f_category)                         /* ipr::Type -> Expr -> Node::category */
#define AS_IFACE(q) (&(q)->__b0.__b0.__b0.__b0)                    /* impl::Qualified -> ipr::Qualified (as returned by get_qualified) */
#define IFACE_AS_TYPE(q) (&(q)->__b0.__b0.__b0)                   /* ipr::Qualified -> ipr::Type */
#define QUALIFIED_CODE @{enum:ipr::Category_code::Qualified}

/* the insert contract stub (W0 = witness element, LAST0 = element returned by the last call) and the macros CMP0 / COMP0_T
   naming the comparator clang resolved inside insert are generated from the JSON index (lib/gen.py) */
#define W W0

/* foreign operand types: an arbitrary type node that is not a Qualified, and arbitrary earlier Qualified nodes built by
   the real constructor (so their accessors are the real final overriders, reached through dynamic dispatch) */
static type_t* plain_type(void) { type_t* t = malloc(sizeof *t); __CPROVER_assume(t != 0); __builtin_memset(t, 0, sizeof *t); CAT(t) = nondet_int(); __CPROVER_assume(CAT(t) != QUALIFIED_CODE); return t; }
static qual_t* earlier_qualified(unsigned long q, type_t* base)
{
  qual_t* e = malloc(sizeof *e); __CPROVER_assume(e != 0);
  rep_t r; r.f_first = q; r.f_second = base;
  @{qual_ctor}(e, &r);
  return e;
}
static unsigned long quals_of(iqual_t* q) { return @{vcall:first}(&q->__b0.__b1); }
static type_t* main_variant_of(iqual_t* q) { return @{vcall:second}(&q->__b0.__b1); }

void h_get_qualified(void)
{
  factory_t* f = malloc(sizeof *f); __CPROVER_assume(f != 0);
  type_t* u = plain_type(); type_t* u2 = plain_type();
  /* any earlier normal-form node as witness: qualifiers non-empty, main variant not qualified (table invariant, L-history) */
  unsigned long qw = nondet_ulong(); __CPROVER_assume(qw != 0);
  W = nondet_bool() ? earlier_qualified(qw, nondet_bool() ? u : u2) : 0; WT0 = (void*)&f->f_qualifieds;      /* an element of THIS table */
  /* the request: qualify either a plain type or an already qualified one */
  unsigned long q = nondet_ulong();
  _Bool nested = nondet_bool();
  unsigned long q1 = nondet_ulong(); __CPROVER_assume(q1 != 0);
  type_t* t = nested ? IFACE_AS_TYPE(AS_IFACE(earlier_qualified(q1, u))) : u;
  __ipr_allow_exc = q == 0 ? IPR_EXC_std__domain_error : IPR_ALLOW_NONE;

  iqual_t* r = @{get_qualified}(f, q, t);

  __CPROVER_assert(q != 0, "C11: asking for a qualified type with an empty qualifier set is refused");
  unsigned long want_q = nested ? (q | q1) : q;
  __CPROVER_assert(quals_of(r) != 0, "C11: a qualified type never has an empty qualifier set");
  __CPROVER_assert(CAT(main_variant_of(r)) != QUALIFIED_CODE, "C11: the main variant of a qualified type is never itself qualified");
  __CPROVER_assert(main_variant_of(r) == u, "C11: the main variant is the innermost unqualified type");
  __CPROVER_assert(quals_of(r) == want_q, "C11: qualifying a qualified type yields the union of both qualifier sets");
  if (W) {
    _Bool same = quals_of(AS_IFACE(W)) == want_q && main_variant_of(AS_IFACE(W)) == u;
    __CPROVER_assert(same == (r == AS_IFACE(W)), "C01/C11: the node is the one built earlier for the same (qualifier set, main variant), and only then");
  }
  __CPROVER_assert(CAT(IFACE_AS_TYPE(r)) == QUALIFIED_CODE, "C06: a qualified type carries the Qualified category code");
  if (nested) IPR_CANARY_POINT(); else IPR_CANARY_POINT();
}

/* K3 CMP-ORDER for binary_compare at (Qualifiers, const Type&) keys: a three-way total order whose zero set is key equality */
void h_cmp_order(void)
{
  type_t* ts[3]; for (int i = 0; i < 3; i++) ts[i] = plain_type();
  qual_t* e[3]; rep_t k[3]; COMP0_T c; __builtin_memset(&c, 0, sizeof c);
  for (int i = 0; i < 3; i++) { k[i].f_first = nondet_ulong(); int j = nondet_int(); __CPROVER_assume(0 <= j && j < 3); k[i].f_second = ts[j]; e[i] = earlier_qualified(k[i].f_first, k[i].f_second); }
  #define SGN(x) ((x) < 0 ? -1 : (x) > 0 ? 1 : 0)
  #define KEQ(i, j) (k[i].f_first == k[j].f_first && k[i].f_second == k[j].f_second)
  int c01 = CMP0(&c, e[0], &k[1]), c10 = CMP0(&c, e[1], &k[0]), c12 = CMP0(&c, e[1], &k[2]), c02 = CMP0(&c, e[0], &k[2]);
  __CPROVER_assert(CMP0(&c, e[0], &k[0]) == 0, "CMP-ORDER: an element compares equal to its own key (reflexive, CTOR-KEY)");
  __CPROVER_assert(SGN(c01) == -SGN(c10), "CMP-ORDER: antisymmetric through the key projection");
  __CPROVER_assert(!(c01 < 0 && c12 < 0) || c02 < 0, "CMP-ORDER: transitive");
  __CPROVER_assert(!(c01 == 0 && c12 == 0) || c02 == 0, "CMP-ORDER: equality is transitive");
  __CPROVER_assert((c01 == 0) == KEQ(0, 1), "CMP-ORDER: zero exactly for the same request (qualifier set by value, type by identity)");
  IPR_CANARY_POINT();
}
