/* K1: rotations under their full contract (enforced by goto-instrument --dfcc). */
void h_rotl(void) { struct S_ZTSN3ipr4util7rb_tree4coreINS1_4nodeIlEEEE* s; struct S_ZTSN3ipr4util7rb_tree4nodeIlEE* x; @{rotl}(s, x); IPR_CANARY_POINT(); }
void h_rotr(void) { struct S_ZTSN3ipr4util7rb_tree4coreINS1_4nodeIlEEEE* s; struct S_ZTSN3ipr4util7rb_tree4nodeIlEE* x; @{rotr}(s, x); IPR_CANARY_POINT(); }
void h_crotl(void) { struct S_ZTSN3ipr4util7rb_tree4coreIN3drv1NEEE* s; struct S_ZTSN3drv1NE* x; @{crotl}(s, x); IPR_CANARY_POINT(); }
void h_crotr(void) { struct S_ZTSN3ipr4util7rb_tree4coreIN3drv1NEEE* s; struct S_ZTSN3drv1NE* x; @{crotr}(s, x); IPR_CANARY_POINT(); }
