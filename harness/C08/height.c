/* K3 (C08): the height clause, as arithmetic over the ghost summaries the fix-up obligations maintain (black height, no red-red).
   Induction step (one node over its two subtrees) and conclusion (black root), for black heights up to 30 (more than 2^30 elements
   do not fit the address space anyway).  size(y) >= 2^bh(y) - 1 and height(y) <= 2*bh(y) + [y red] for both subtrees  ==>  the same
   for the node; at a black root: height <= 2*bh and n + 1 >= 2^bh, hence height <= 2*log2(n + 1).  Heights count nodes on a path. */
void h_height_step(void)
{
  unsigned long sl = nondet_ulong(), sr = nondet_ulong(), hl = nondet_ulong(), hr = nondet_ulong(); unsigned bhc = nondet_uint();
  _Bool red = nondet_bool(), lred = nondet_bool(), rred = nondet_bool(), lnull = nondet_bool(), rnull = nondet_bool();
  __CPROVER_assume(bhc <= 30 && sl < (1UL << 40) && sr < (1UL << 40) && hl <= 200 && hr <= 200);
  /* the two subtrees have the same black height bhc (balance); an empty subtree is black with bhc = 0, size 0, height 0 */
  if (lnull) __CPROVER_assume(bhc == 0 && sl == 0 && hl == 0 && !lred);
  if (rnull) __CPROVER_assume(bhc == 0 && sr == 0 && hr == 0 && !rred);
  /* induction hypothesis for both subtrees */
  __CPROVER_assume(sl + 1 >= (1UL << bhc) && sr + 1 >= (1UL << bhc));
  __CPROVER_assume(hl <= 2UL * bhc + lred && hr <= 2UL * bhc + rred);
  /* no red node has a red child */
  __CPROVER_assume(!red || (!lred && !rred));
  unsigned bh = bhc + (red ? 0 : 1);
  unsigned long size = 1 + sl + sr, height = 1 + (hl > hr ? hl : hr);
  __CPROVER_assert(size + 1 >= (1UL << bh), "C08 height lemma (step): a subtree of black height b holds at least 2^b - 1 elements");
  __CPROVER_assert(height <= 2UL * bh + red, "C08 height lemma (step): a subtree of black height b is at most 2b (+1 under a red root) nodes high");
  IPR_CANARY_POINT();
}
void h_height_root(void)
{
  unsigned long n = nondet_ulong(), height = nondet_ulong(); unsigned bh = nondet_uint();
  __CPROVER_assume(bh <= 31 && n < (1UL << 40) && height <= 200);
  __CPROVER_assume(n + 1 >= (1UL << bh) && height <= 2UL * bh);            /* the step's conclusion at a black root */
  unsigned half = (unsigned)((height + 1) / 2);                            /* ceil(height / 2) <= bh */
  __CPROVER_assert(half <= 31 && n + 1 >= (1UL << half), "C08: with a black root, no red-red and equal black counts, height <= 2*log2(n + 1)");
  IPR_CANARY_POINT();
}
