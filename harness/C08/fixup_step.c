/* K2 (C08): induction step of the fixup_insert loop, on the mechanically outlined real loop body.
   State: a local neighbourhood {z, p, g, uncle, great-grandparent, z's children, z's sibling}; the subtrees hanging
   below the frontier are summarised by ghost (colour, child black height).  Lifted to whole trees by lemma L-tree
   (DESIGN.md 5.3).  FLAVOUR selects the owning (node<long>) or the intrusive (drv::N) instantiation. */
#if FLAVOUR == 1
typedef struct S_ZTSN3ipr4util7rb_tree4nodeIlEE node_t;
typedef struct S_ZTSN3ipr4util7rb_tree4coreINS1_4nodeIlEEEE core_t;
#define STEP @{fixup}__loop0_step
#else
typedef struct S_ZTSN3drv1NE node_t;
typedef struct S_ZTSN3ipr4util7rb_tree4coreIN3drv1NEEE core_t;
#define STEP @{cfixup}__loop0_step
#endif

static node_t *Z, *Pn, *G, *U, *GG, *ZL, *ZR, *S;
static unsigned bhc_ZL, bhc_ZR, bhc_S, bhc_U;   /* ghost: black height below each frontier node */

static int is_frontier(node_t* n) { return n != 0 && (n == ZL || n == ZR || n == S || n == U); }
static unsigned ghost_bhc(node_t* n) { return n == ZL ? bhc_ZL : n == ZR ? bhc_ZR : n == S ? bhc_S : bhc_U; }
static int black(node_t* n) { return n == 0 || COL(n) == BLACK; }

/* black height of the subtree at n, descending only through internal nodes; *ok = 0 on imbalance, broken parent link,
   or a red node with a red child (other than the excused child) */
static unsigned bh(node_t* n, int depth, int* ok, node_t* excused_child)
{
  if (n == 0) return 0;
  if (is_frontier(n)) return ghost_bhc(n) + (COL(n) == BLACK);
  if (depth > 3) { *ok = 0; return 0; }
  node_t* l = L(n); node_t* r = R(n);
  if (l && P(l) != n) *ok = 0;
  if (r && P(r) != n) *ok = 0;
  if (COL(n) == RED) {
    if (!black(l) && l != excused_child) *ok = 0;
    if (!black(r) && r != excused_child) *ok = 0;
  }
  unsigned a = bh(l, depth + 1, ok, excused_child), b = bh(r, depth + 1, ok, excused_child);
  if (a != b) *ok = 0;
  return a + (COL(n) == BLACK);
}
/* in-order token sequence of the local shape: frontier nodes and empty slots are atomic tokens */
static void inorder(node_t* n, int depth, const void** out, int* k)
{
  if (*k >= 15) return;
  if (n == 0) { out[(*k)++] = 0; return; }
  if (is_frontier(n)) { out[(*k)++] = n; return; }
  if (depth > 3) { out[(*k)++] = (void*)1; return; }
  inorder(L(n), depth + 1, out, k);
  if (*k < 15) out[(*k)++] = n;
  inorder(R(n), depth + 1, out, k);
}
static node_t* mk(void) { node_t* n = malloc(sizeof(node_t)); __CPROVER_assume(n != 0); return n; }
static node_t* opt(void) { return nondet_bool() ? mk() : 0; }

void h_step(void)
{
  core_t core;
  Z = mk(); Pn = mk(); G = mk();
  U = opt(); GG = opt(); ZL = opt(); ZR = opt(); S = opt();
  _Bool p_left = nondet_bool(), z_left = nondet_bool(), g_left = nondet_bool();
  L(G) = p_left ? Pn : U; R(G) = p_left ? U : Pn; P(Pn) = G; if (U) P(U) = G;
  L(Pn) = z_left ? Z : S; R(Pn) = z_left ? S : Z; P(Z) = Pn; if (S) P(S) = Pn;
  L(Z) = ZL; R(Z) = ZR; if (ZL) P(ZL) = Z; if (ZR) P(ZR) = Z;
  P(G) = GG;
  node_t* gg_other = opt();     /* great-grandparent's other child: must never be touched */
  node_t* RT = mk();            /* stands for a root further up */
  if (GG) { if (g_left) { L(GG) = G; R(GG) = gg_other; } else { R(GG) = G; L(GG) = gg_other; } core.f_root = nondet_bool() ? GG : RT; }
  else core.f_root = G;
  /* invariant + guard: z red, its parent red (guard), hence g black (p is not the root and the only red-red pair is (p, z)) */
  COL(Z) = RED; COL(Pn) = RED; COL(G) = BLACK;
  if (U) COL(U) = nondet_bool() ? RED : BLACK;
  if (S) COL(S) = BLACK; if (ZL) COL(ZL) = BLACK; if (ZR) COL(ZR) = BLACK;
  if (GG) COL(GG) = nondet_bool() ? RED : BLACK;
  __CPROVER_assume(bhc_ZL < 1000 && bhc_ZR < 1000 && bhc_S < 1000 && bhc_U < 1000);
  int ok0 = 1;
  unsigned bh_before = bh(G, 0, &ok0, Z);
  __CPROVER_assume(ok0);                                  /* every node of the neighbourhood locally valid, except (p, z) */
  const void* seq0[16]; int k0 = 0; inorder(G, 0, seq0, &k0);
  node_t* old_root = core.f_root;
  int gg_col0 = GG ? COL(GG) : 0;
  int u_col0 = U ? COL(U) : 0;

  node_t* z = Z;
  int cont = STEP(&core, &z);
  __CPROVER_assert(cont == 1, "C08 step: the loop guard holds in the assumed state");

  node_t* top = GG ? (g_left ? L(GG) : R(GG)) : core.f_root;
  __CPROVER_assert(top == G || top == Pn || top == Z, "C08 step: the subtree is re-rooted at g, p or z");
  __CPROVER_assert(P(top) == GG, "C08 step: parent link of the subtree root is consistent");
  if (GG) {
    __CPROVER_assert(COL(GG) == gg_col0, "C08 step: great-grandparent's colour untouched");
    __CPROVER_assert((g_left ? R(GG) : L(GG)) == gg_other, "C08 step: great-grandparent's other child untouched");
    __CPROVER_assert(core.f_root == old_root, "C08 step: root unchanged when the subtree is not at the root");
  }
  const void* seq1[16]; int k1 = 0; inorder(top, 0, seq1, &k1);
  __CPROVER_assert(k0 == k1, "C08 step: same number of in-order items (nothing lost, nothing duplicated)");
  for (int i = 0; i < 16; i++) if (i < k0 && i < k1) __CPROVER_assert(seq0[i] == seq1[i], "C08 step: in-order sequence preserved (search order kept)");
  int ok1 = 1;
  if (top == G) {
    __CPROVER_assert(z == G, "C08 step (recolour): z moves to the grandparent");
    __CPROVER_assert(COL(G) == RED, "C08 step (recolour): new z is red");
    unsigned h = bh(G, 0, &ok1, 0);
    __CPROVER_assert(ok1, "C08 step (recolour): subtree valid, balanced, no red-red inside");
    __CPROVER_assert(h == bh_before, "C08 step (recolour): black height seen from above unchanged");
    __CPROVER_assert(u_col0 == RED, "C08 step (recolour): only taken when the uncle is red");
    IPR_CANARY_POINT();
  } else {
    __CPROVER_assert(COL(top) == BLACK, "C08 step (rotate): new subtree root is black");
    unsigned h = bh(top, 0, &ok1, 0);
    __CPROVER_assert(ok1, "C08 step (rotate): subtree valid, balanced, no red-red");
    __CPROVER_assert(h == bh_before, "C08 step (rotate): black height preserved");
    __CPROVER_assert(z == core.f_root || COL(P(z)) == BLACK, "C08 step (rotate): the loop exits next (measure)");
    __CPROVER_assert(COL(z) == RED, "C08 step (rotate): z is red");
    IPR_CANARY_POINT();
  }
}

/* exit VC: invariant and negated guard, then the final `root->color = Black` (taken from the real function by running it
   from a state where the loop does not iterate): all red-black rules hold in the neighbourhood {root} / {z, p}. */
void h_exit(void)
{
  core_t core; node_t* z = mk(); node_t* zl = opt(); node_t* zr = opt();
  L(z) = zl; R(z) = zr; if (zl) { P(zl) = z; COL(zl) = BLACK; } if (zr) { P(zr) = z; COL(zr) = BLACK; }
  COL(z) = RED;
  _Bool at_root = nondet_bool();
  node_t* p = 0;
  if (at_root) { P(z) = 0; core.f_root = z; }
  else { p = mk(); P(z) = p; COL(p) = BLACK; if (nondet_bool()) L(p) = z; else R(p) = z;
         node_t* root = nondet_bool() ? p : mk(); core.f_root = root; COL(root) = BLACK; /* invariant (e): root black unless z is the root */ }
#if FLAVOUR == 1
  @{fixup}(&core, z);
#else
  @{cfixup}(&core, z);
#endif
  __CPROVER_assert(COL(core.f_root) == BLACK, "C08 exit: the root is black");
  if (at_root) { __CPROVER_assert(COL(z) == BLACK && L(z) == zl && R(z) == zr, "C08 exit: a red root is recoloured, links untouched"); IPR_CANARY_POINT(); }
  else { __CPROVER_assert(COL(z) == RED && COL(p) == BLACK && P(z) == p, "C08 exit: nothing but the root's colour is touched when the parent is black"); IPR_CANARY_POINT(); }
}
