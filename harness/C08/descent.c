/* K2 (C08): the two search loops (find, and the descent of insert), on the mechanically outlined real loop bodies.
   Ghost state: every node n of a search tree carries an open interval (lo(n), hi(n)) that contains its key; with the
   library's convention (comp(data, key) < 0 descends LEFT, i.e. larger keys are on the left) the interval of the left
   child is (data(n), hi(n)) and that of the right child is (lo(n), data(n)).  Lemma L-tree (DESIGN.md 5.3): in a tree
   whose nodes all satisfy this local rule, a key can only occur in the subtree whose interval contains it.
   Invariant of both descents: the key searched lies in the interval of the current position (node or empty slot).
     step:  Inv and one execution of the REAL loop body  ==>  Inv at the new position (the child's interval by the rule above),
            or the loop stops at a node whose datum compares equal to the key (and, for find, that datum is returned);
     exit (null reached): the empty slot's interval contains the key, so by L-tree no node holds the key: "not found" is
            right, and a new leaf linked there (insert) satisfies the local order rule;
     measure: the depth of the current position strictly increases (the new position is a child of the old one).
   FLAVOUR selects the owning (node<long>) or the intrusive (drv::N) instantiation; keys are arbitrary longs. */
#if FLAVOUR == 1
typedef struct S_ZTSN3ipr4util7rb_tree4nodeIlEE node_t;
typedef struct S_ZTSN3ipr4util7rb_tree9containerIlEE tree_t;
typedef struct S_ZTSN3drv8long_cmpE cmp_t;
#define KEY(n) ((n)->f_data)
#else
typedef struct S_ZTSN3drv1NE node_t;
typedef struct S_ZTSN3ipr4util7rb_tree5chainIN3drv1NEEE tree_t;
typedef struct S_ZTSN3drv5n_cmpE cmp_t;
#define KEY(n) ((n)->f_key)
#endif
static node_t* fresh(void) { node_t* n = malloc(sizeof *n); __CPROVER_assume(n != 0); return n; }
/* a node x with its two children (each present or absent), arbitrary contents otherwise; ghost interval of x */
static node_t *X, *XL, *XR; static long LO, HI; static _Bool has_lo, has_hi;
static _Bool in_interval(long k, _Bool hl, long lo, _Bool hh, long hi) { return (!hl || lo < k) && (!hh || k < hi); }
static void neighbourhood(void)
{
  X = fresh(); XL = nondet_bool() ? fresh() : 0; XR = nondet_bool() ? fresh() : 0;
  L(X) = XL; R(X) = XR; if (XL) P(XL) = X; if (XR) P(XR) = X;
  has_lo = nondet_bool(); has_hi = nondet_bool();
  __CPROVER_assume(in_interval(KEY(X), has_lo, LO, has_hi, HI));            /* local order rule at x */
  if (XL) __CPROVER_assume(in_interval(KEY(XL), 1, KEY(X), has_hi, HI));    /* ... and at its children */
  if (XR) __CPROVER_assume(in_interval(KEY(XR), has_lo, LO, 1, KEY(X)));
}

void h_find_step(void)
{
  neighbourhood();
  tree_t* t = malloc(sizeof *t); __CPROVER_assume(t != 0);
  long key = nondet_long(); long* kp = &key; cmp_t comp; __builtin_memset(&comp, 0, sizeof comp);
  __CPROVER_assume(in_interval(key, has_lo, LO, has_hi, HI));               /* Inv */
  node_t* x = X;
#if FLAVOUR == 1
  long* ret = 0;
  int r = @{find}__loop0_step(t, &x, &comp, &kp, &ret);
  if (r == 2) { __CPROVER_assert(ret == &KEY(X) && KEY(X) == key, "C08 find step: the element returned is one whose key compares equal to the key searched"); IPR_CANARY_POINT(); }
#else
  node_t* result = 0; _Bool found = 0; node_t* ret = 0;
  /* chain::find keeps `result` and `found`; its loop runs while result != null and not found */
  result = X; x = X;
  int r = @{cfind}__loop0_step(t, &result, &found, &comp, &kp, &ret);
  x = result;
  if (found) { __CPROVER_assert(x == X && KEY(X) == key, "C08 find step: the search stops at a node whose key compares equal to the key searched"); IPR_CANARY_POINT(); r = 2; }
#endif
  if (r == 1) {
    __CPROVER_assert(KEY(X) != key, "C08 find step: the search only moves on when the current key differs");
    /* larger keys are on the left: the position reached is the child on the side whose interval contains the key (depth increases: termination) */
    if (KEY(X) < key) { __CPROVER_assert(x == XL, "C08 find step: the search moves to the child whose interval contains the key");
                        __CPROVER_assert(in_interval(key, 1, KEY(X), has_hi, HI), "C08 find step: the key lies in the interval of the subtree (or empty slot) the search moves to"); }
    else { __CPROVER_assert(x == XR, "C08 find step: the search moves to the child whose interval contains the key");
           __CPROVER_assert(in_interval(key, has_lo, LO, 1, KEY(X)), "C08 find step: the key lies in the interval of the subtree (or empty slot) the search moves to"); }
    IPR_CANARY_POINT();
  }
  __CPROVER_assert(r == 1 || r == 2, "C08 find step: at a node the loop either moves on or stops with a hit");
}

void h_insert_step(void)
{
  neighbourhood();
  tree_t* t = malloc(sizeof *t); __CPROVER_assume(t != 0);
  cmp_t comp; __builtin_memset(&comp, 0, sizeof comp);
  /* the slot is the link through which the current node was reached (it holds that node); the parent so far is arbitrary */
  _Bool found = 0; node_t* where = X; node_t* parent = (node_t*)nondet_ptr(); node_t* cell = X; node_t** slot = &cell;
#if FLAVOUR == 1
  long key = nondet_long(); long* kp = &key; long* ret = 0;
  __CPROVER_assume(in_interval(key, has_lo, LO, has_hi, HI));               /* Inv */
  int r = @{insert}__loop0_step(t, &where, &found, &comp, &kp, &parent, &slot, &ret);
#else
  node_t* z = fresh(); node_t* up = parent; node_t* ret = 0; long key = KEY(z);
  __CPROVER_assume(in_interval(key, has_lo, LO, has_hi, HI));               /* Inv */
  /* chain::insert walks with `up` (the parent) and `slot`; the node under examination is *slot */
  int r = @{cinsert}__loop0_step(t, &found, &slot, &comp, &z, &up, &ret);
  parent = up; where = found ? X : *slot;
#endif
  __CPROVER_assert(r == 1, "C08 insert step: at a node the body runs to its end");
  if (found) { __CPROVER_assert(KEY(X) == key, "C08 insert step: the descent stops only at a node whose key compares equal"); IPR_CANARY_POINT(); }
  else {
    __CPROVER_assert(parent == X, "C08 insert step: the node left becomes the parent of the position reached");
    __CPROVER_assert(slot == &L(X) || slot == &R(X), "C08 insert step: the slot is one of the two child links of that parent");
    __CPROVER_assert(where == *slot, "C08 insert step: the position reached is what the slot holds (a child, or empty: the place for a new leaf)");
    if (KEY(X) < key) { __CPROVER_assert(slot == &L(X), "C08 insert step: the descent takes the child link on the side whose interval contains the key");
                        __CPROVER_assert(in_interval(key, 1, KEY(X), has_hi, HI), "C08 insert step: the key lies in the interval of the slot reached, so a leaf linked there keeps the search-tree order"); }
    else { __CPROVER_assert(slot == &R(X), "C08 insert step: the descent takes the child link on the side whose interval contains the key");
           __CPROVER_assert(in_interval(key, has_lo, LO, 1, KEY(X)), "C08 insert step: the key lies in the interval of the slot reached, so a leaf linked there keeps the search-tree order"); }
    IPR_CANARY_POINT();
  }
}
