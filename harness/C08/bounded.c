/* K5 (C08): bounded stand-in.  All insertion sequences of NK symbolic keys from a domain of NK+1 values (duplicates
   included) through the real insert/find of both flavours, followed by a full recursive validity check.  Bound: NK. */
#ifndef NK
#define NK 4
#endif
typedef struct S_ZTSN3ipr4util7rb_tree4nodeIlEE onode_t;
typedef struct S_ZTSN3ipr4util7rb_tree9containerIlEE tree_t;
typedef struct S_ZTSN3drv1NE inode_t;
typedef struct S_ZTSN3ipr4util7rb_tree5chainIN3drv1NEEE chain_t;
#define DEPTH_MAX 4   /* 2*log2(NK+1) <= 4 for NK <= 3; <= 5 for NK <= 6: a deeper tree fails the height clause */

/* returns black height, or -1 when a rule is broken.  Order convention of the library: comp(data, key) < 0 descends
   LEFT, so with the three-way integer comparison larger keys are on the left. */
#define CHECKER(NAME, NODE, KEY) \
static int NAME(NODE* n, NODE* parent, int has_lo, long lo, int has_hi, long hi, int depth, int maxdepth) { \
  if (!n) return 0; \
  if (depth >= maxdepth) return -1;                                      /* height bound 2*log2(n+1) */ \
  if (P(n) != parent) return -1;                                         /* consistent parent links  */ \
  if (has_lo && !(KEY(n) > lo)) return -1;                               /* search-tree order        */ \
  if (has_hi && !(KEY(n) < hi)) return -1; \
  if (COL(n) != BLACK && COL(n) != RED) return -1; \
  if (COL(n) == RED && ((L(n) && COL(L(n)) == RED) || (R(n) && COL(R(n)) == RED))) return -1;  /* no red-red */ \
  int a = NAME(L(n), n, 1, KEY(n), has_hi, hi, depth + 1, maxdepth); \
  int b = NAME(R(n), n, has_lo, lo, 1, KEY(n), depth + 1, maxdepth); \
  if (a < 0 || b < 0 || a != b) return -1;                               /* equal black count        */ \
  return a + (COL(n) == BLACK); }
#define OKEY(n) ((n)->f_data)
#define IKEY(n) ((n)->f_key)
CHECKER(ochk, onode_t, OKEY)
CHECKER(ichk, inode_t, IKEY)

static int height_bound(int n) { return n <= 0 ? 0 : n == 1 ? 2 : n == 2 ? 3 : n <= 4 ? 4 : n <= 6 ? 5 : n <= 10 ? 6 : 7; }  /* floor(2*log2(n+1)), height counted in nodes */

void h_owning(void)
{
  tree_t t; __builtin_memset(&t, 0, sizeof t);
  long ks[NK]; long* res[NK];
  long distinct = 0;
  for (int i = 0; i < NK; i++) {
    __CPROVER_assume(ks[i] >= 0 && ks[i] <= NK);
    res[i] = @{drv_insert}(&t, ks[i]);
    __CPROVER_assert(res[i] != 0 && *res[i] == ks[i], "C08 bounded: insert returns an element equal to the key");
    int dup = 0;
    for (int j = 0; j < i; j++) if (ks[j] == ks[i]) { dup = 1; __CPROVER_assert(res[i] == res[j], "C08 bounded: inserting an equal key returns the existing element"); }
    distinct += !dup;
    __CPROVER_assert(t.__b0.f_count == distinct, "C08 bounded: an equal key adds nothing, a new key adds one");
    __CPROVER_assert(t.__b0.f_root != 0 && COL(t.__b0.f_root) == BLACK, "C08 bounded: root is black");
    __CPROVER_assert(ochk(t.__b0.f_root, 0, 0, 0, 0, 0, 0, height_bound((int)distinct)) >= 0, "C08 bounded: red-black search tree with consistent parent links and height <= 2*log2(n+1) after every insertion");
  }
  for (int i = 0; i < NK; i++) __CPROVER_assert(@{drv_find}(&t, ks[i]) == res[i], "C08 bounded: every inserted key is found");
  long q; __CPROVER_assume(q >= -1 && q <= NK + 1);
  int present = 0; for (int i = 0; i < NK; i++) present |= (ks[i] == q);
  if (!present) __CPROVER_assert(@{drv_find}(&t, q) == 0, "C08 bounded: a key never inserted is not found");
  IPR_CANARY_POINT();
}

void h_intrusive(void)
{
  chain_t c; __builtin_memset(&c, 0, sizeof c);
  inode_t* ns[NK]; long distinct = 0;
  for (int i = 0; i < NK; i++) {
    ns[i] = malloc(sizeof(inode_t)); __CPROVER_assume(ns[i] != 0);
    __builtin_memset(ns[i], 0, sizeof(inode_t)); COL(ns[i]) = RED;          /* as default-constructed by link<>: null arms, red */
    long k; __CPROVER_assume(k >= 0 && k <= NK); ns[i]->f_key = k;
    int dup = 0; for (int j = 0; j < i; j++) if (ns[j]->f_key == k) dup = 1;
    inode_t* r = @{drv_cinsert}(&c, ns[i]);
    __CPROVER_assert(r == ns[i], "C08 bounded: intrusive insert returns the node");
    distinct += !dup;
    __CPROVER_assert(c.__b0.f_root != 0 && COL(c.__b0.f_root) == BLACK, "C08 bounded: root is black (intrusive)");
    __CPROVER_assert(ichk(c.__b0.f_root, 0, 0, 0, 0, 0, 0, height_bound((int)distinct)) >= 0, "C08 bounded: intrusive tree is a red-black search tree with consistent parent links after every insertion");
  }
  for (int i = 0; i < NK; i++) {
    inode_t* f = @{drv_cfind}(&c, ns[i]->f_key);
    __CPROVER_assert(f != 0 && f->f_key == ns[i]->f_key, "C08 bounded: every inserted key is found (intrusive)");
  }
  long q; __CPROVER_assume(q >= -1 && q <= NK + 1);
  int present = 0; for (int i = 0; i < NK; i++) present |= (ns[i]->f_key == q);
  if (!present) __CPROVER_assert(@{drv_cfind}(&c, q) == 0, "C08 bounded: a key never inserted is not found (intrusive)");
  IPR_CANARY_POINT();
}
