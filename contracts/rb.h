/* Sidecar contracts for the red-black tree of /repo/include/ipr/utility (C08, used by C01/C04/C05/C07).
   Node shape after lowering (both flavours): n->__b0.f_arm[0..2] = left, right, parent; n->__b0.f_color (0 black, 1 red). */
#define L(n) ((n)->__b0.f_arm[0])
#define R(n) ((n)->__b0.f_arm[1])
#define P(n) ((n)->__b0.f_arm[2])
#define COL(n) ((n)->__b0.f_color)
#define BLACK 0
#define RED 1

/* rotate_left(x): y = x->right becomes x's parent.  Postcondition = the exact rewiring; the frame says nothing
   else (no data, no colour, no other link) is written.   Appendix A1 of DESIGN.md. */
#define ROT_CONTRACT(A, B) /* A = arm of the pivot child (R for left rotation), B = the other arm */ \
  __CPROVER_requires(__CPROVER_is_fresh(self, sizeof(*self))) \
  __CPROVER_requires(__CPROVER_is_fresh(IPR_ARG0, sizeof(*IPR_ARG0))) \
  __CPROVER_requires(__CPROVER_is_fresh(A(IPR_ARG0), sizeof(*IPR_ARG0))) \
  __CPROVER_requires(B(A(IPR_ARG0)) == NULL || __CPROVER_is_fresh(B(A(IPR_ARG0)), sizeof(*IPR_ARG0))) \
  __CPROVER_requires(P(IPR_ARG0) == NULL || __CPROVER_is_fresh(P(IPR_ARG0), sizeof(*IPR_ARG0))) \
  __CPROVER_assigns(self->f_root, A(IPR_ARG0), P(IPR_ARG0), B(A(IPR_ARG0)), P(A(IPR_ARG0))) \
  __CPROVER_assigns(B(A(IPR_ARG0)) != NULL: P(B(A(IPR_ARG0)))) \
  __CPROVER_assigns(P(IPR_ARG0) != NULL: L(P(IPR_ARG0)), R(P(IPR_ARG0))) \
  __CPROVER_ensures(P(IPR_ARG0) == __CPROVER_old(A(IPR_ARG0)))                         /* y is now x's parent          */ \
  __CPROVER_ensures(B(P(IPR_ARG0)) == IPR_ARG0)                                         /* x hangs on y's B side        */ \
  __CPROVER_ensures(A(IPR_ARG0) == __CPROVER_old(B(A(IPR_ARG0))))                       /* y's old B subtree moved to x */ \
  __CPROVER_ensures(A(IPR_ARG0) != NULL ==> P(A(IPR_ARG0)) == IPR_ARG0) \
  __CPROVER_ensures(P(P(IPR_ARG0)) == __CPROVER_old(P(IPR_ARG0)))                       /* y took x's place             */ \
  __CPROVER_ensures(__CPROVER_old(P(IPR_ARG0)) == NULL ? self->f_root == P(IPR_ARG0) : self->f_root == __CPROVER_old(self->f_root)) \
  __CPROVER_ensures((__CPROVER_old(P(IPR_ARG0)) != NULL && __CPROVER_old(B(P(IPR_ARG0))) == IPR_ARG0) ==> \
        (B(P(P(IPR_ARG0))) == P(IPR_ARG0) && A(P(P(IPR_ARG0))) == __CPROVER_old(A(P(IPR_ARG0))))) \
  __CPROVER_ensures((__CPROVER_old(P(IPR_ARG0)) != NULL && __CPROVER_old(B(P(IPR_ARG0))) != IPR_ARG0) ==> \
        (A(P(P(IPR_ARG0))) == P(IPR_ARG0) && B(P(P(IPR_ARG0))) == __CPROVER_old(B(P(IPR_ARG0)))))

/* NB the real code tests `x->parent()->left() == x` in rotate_left and `x->parent()->right() == x` in rotate_right,
   i.e. in both cases "x is its parent's B-side... " is NOT symmetric: rotate_left tests LEFT (= B for A=R),
   rotate_right tests RIGHT (= B for A=L).  So with B the arm opposite to the pivot arm, both say: if x was the B child
   of its parent, y replaces it there, otherwise y is stored in the A arm. */
#define CONTRACT_@{rotl} ROT_CONTRACT(R, L)
#define CONTRACT_@{rotr} ROT_CONTRACT(L, R)
#define CONTRACT_@{crotl} ROT_CONTRACT(R, L)
#define CONTRACT_@{crotr} ROT_CONTRACT(L, R)
