/* Sidecar contracts for util::string::arena (src/utility.cxx) -- C03, C05, C19.
   Layout facts the contracts rely on are _Static_assert-ed in the harness: sizeof(string) == 16, sizeof(pool) == 1048584. */
long g_k, g_j, g_nmax;   /* ghost indices: stand for every position at once */
#define HDRSZ 16L
#define BUFSZ 65536L                       /* headers per pool  */
#define POOLSZ 1048584L                    /* 8 + 16 * 65536    */
#define OFF(p) ((long)__CPROVER_POINTER_OFFSET(p))
/* representation invariant: next_header points into the current pool's storage, on a header boundary (one past the end allowed) */
#define ARENA_WF(a) ((a)->f_mem != NULL && __CPROVER_same_object((a)->f_next_header, (a)->f_mem) \
   && OFF((a)->f_next_header) >= 8 && OFF((a)->f_next_header) <= POOLSZ && (OFF((a)->f_next_header) - 8) % HDRSZ == 0)
/* number of 16-byte headers a word of n bytes occupies: 8 bytes are inline in the first header */
#define GRANULES(n) ((n) <= 8 ? 1L : (((n) + 7) >> 4) + 1)   /* = ceil((n - 8) / 16) + 1, written without a divider */

#define CONTRACT_@{allocate} \
  __CPROVER_requires(__CPROVER_is_fresh(self, sizeof(*self))) \
  __CPROVER_requires(__CPROVER_is_fresh(self->f_mem, POOLSZ)) \
  __CPROVER_requires(self->f_mem->f_previous == NULL || __CPROVER_is_fresh(self->f_mem->f_previous, POOLSZ)) \
  __CPROVER_requires(ARENA_WF(self)) \
  __CPROVER_requires(0 <= IPR_ARG0 && IPR_ARG0 <= ((long)1 << 40)) \
  __CPROVER_assigns(self->f_mem, self->f_next_header, self->f_mem->f_previous) \
  __CPROVER_ensures(ARENA_WF(self)) \
  __CPROVER_ensures(__CPROVER_return_value != NULL) \
  /* the block holds the header and IPR_ARG0 bytes of characters, all writable */ \
  __CPROVER_ensures(__CPROVER_rw_ok(__CPROVER_return_value, HDRSZ * GRANULES(IPR_ARG0))) \
  __CPROVER_ensures(8 + IPR_ARG0 <= HDRSZ * GRANULES(IPR_ARG0)) \
  /* case 1: carved from the current pool: starts where the free space started, free space now starts right after it */ \
  __CPROVER_ensures(__CPROVER_same_object(__CPROVER_return_value, __CPROVER_old(self->f_mem)) ==> \
      (__CPROVER_return_value == __CPROVER_old(self->f_next_header) && self->f_mem == __CPROVER_old(self->f_mem) \
       && self->f_mem->f_previous == __CPROVER_old(self->f_mem->f_previous) \
       && OFF(self->f_next_header) == OFF(__CPROVER_return_value) + HDRSZ * GRANULES(IPR_ARG0))) \
  /* case 2: a new pool became current: block at its start, free space right after it, old pool chained behind */ \
  __CPROVER_ensures((!__CPROVER_same_object(__CPROVER_return_value, __CPROVER_old(self->f_mem)) && self->f_mem != __CPROVER_old(self->f_mem)) ==> \
      (__CPROVER_same_object(__CPROVER_return_value, self->f_mem) && OFF(__CPROVER_return_value) == 8 \
       && self->f_mem->f_previous == __CPROVER_old(self->f_mem) \
       && OFF(self->f_next_header) == 8 + HDRSZ * GRANULES(IPR_ARG0))) \
  /* case 3: oversize word in a pool of its own, chained behind the current one; current pool and free space untouched */ \
  __CPROVER_ensures((!__CPROVER_same_object(__CPROVER_return_value, __CPROVER_old(self->f_mem)) && self->f_mem == __CPROVER_old(self->f_mem)) ==> \
      (IPR_ARG0 > BUFSZ && __CPROVER_same_object(__CPROVER_return_value, self->f_mem->f_previous) && OFF(__CPROVER_return_value) == 8 \
       /* its `previous` (first word of the pool that starts 8 bytes before the block) links to what was behind the current pool */ \
       && *(void**)((char*)__CPROVER_return_value - 8) == (void*)__CPROVER_old(self->f_mem->f_previous) \
       && self->f_next_header == __CPROVER_old(self->f_next_header))) \
  /* in cases 2 and 3 the block lies in an object that did not exist before the call: in no case does it overlap \
     anything handed out earlier (earlier blocks of the current pool end at the old next_header) */ \
  __CPROVER_ensures(!__CPROVER_same_object(__CPROVER_return_value, __CPROVER_old(self->f_mem)) ==> \
      !__CPROVER_same_object(__CPROVER_return_value, __CPROVER_old(self->f_mem->f_previous)))

/* make_string: ghost index g_k stands for every character position at once */
#define CONTRACT_@{make_string} \
  __CPROVER_requires(__CPROVER_is_fresh(self, sizeof(*self))) \
  __CPROVER_requires(__CPROVER_is_fresh(self->f_mem, POOLSZ)) \
  __CPROVER_requires(self->f_mem->f_previous == NULL || __CPROVER_is_fresh(self->f_mem->f_previous, POOLSZ)) \
  __CPROVER_requires(ARENA_WF(self)) \
  __CPROVER_requires(0 <= IPR_ARG1 && IPR_ARG1 <= g_nmax && g_nmax <= ((long)1 << 40)) \
  __CPROVER_requires(__CPROVER_is_fresh(IPR_ARG0, g_nmax + 1)) \
  __CPROVER_assigns(self->f_mem, self->f_next_header, self->f_mem->f_previous, __CPROVER_object_whole(self->f_mem)) \
  __CPROVER_ensures(ARENA_WF(self)) \
  __CPROVER_ensures(__CPROVER_return_value != NULL && __CPROVER_return_value->f_length == IPR_ARG1) \
  __CPROVER_ensures((0 <= g_k && g_k < IPR_ARG1) ==> ((unsigned char*)__CPROVER_return_value)[8 + g_k] == IPR_ARG0[g_k]) \
  /* nothing handed out earlier from the current pool is altered (g_j: any byte below the old free-space mark) */ \
  __CPROVER_ensures((8 <= g_j && g_j < OFF(__CPROVER_old(self->f_next_header))) ==> \
      ((unsigned char*)__CPROVER_old(self->f_mem))[g_j] == __CPROVER_old(((unsigned char*)self->f_mem)[g_j]))
