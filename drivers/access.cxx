// Driver TU for C14's primitives: util::check, util::ref, Optional, and every sequence implementation at a symbolic index.
// Each function returns 0 when the datum returned is the right one; refusals are exceptions (the harness allows only logic errors).
#include <impl.cxx>
#include <traversal.cxx>
#include "factory_lib.hxx"
namespace drv {
   unsigned p_check(const Expr* p) { const Expr* r = util::check(p); return (p == nullptr) ? 1u : (r != p); }                 // returning normally on null is a failure
   unsigned p_ref(const Expr* p) { util::ref<const Expr> r { p }; const Expr& e = r.get(); return (p == nullptr) ? 1u : (&e != p); }
   unsigned p_optional(const Expr* p) { Optional<Expr> o { p }; if (o.is_valid() != (p != nullptr)) return 2u; const Expr& e = o.get(); return (p == nullptr) ? 1u : (&e != p); }
   // a capture of a declaration whose name is NOT an identifier (an operator name built by the real factory): the capture's
   // name() is typed `const Identifier&`, so it must refuse (logic error), never hand out a mistyped reference
   unsigned p_capture_name(impl::Lexicon& lx, const String& s, const Type& t, Binding_mode m)
   {
      auto& r = *new impl::Region{ Optional<ipr::Region>{ } };
      const ipr::Decl& d = *r.declare_var(lx.get_operator(s), t);
      auto& cf = *new impl::capture_spec_factory{ }; const ipr::Capture_specification::Enclosing_local& c = cf.enclosing_local_capture(d, m);
      (void)c.name();
      return 1u;                                           // returned normally: a non-identifier was passed off as an Identifier
   }
   // a function declaration switched to definition form before its mapping is attached: parameters() has nothing to report
   unsigned p_fundecl_definition_form(const Name& n, const ipr::Function& ft)
   {
      auto& r = *new impl::Region{ Optional<ipr::Region>{ } };
      impl::Fundecl* f = r.declare_fun(n, ft);
      f->data.emplace<1>();
      (void)static_cast<const ipr::Fundecl&>(*f).parameters();
      return 1u;                                           // returned normally although no mapping (hence no parameter list) exists
   }
   template<class S, class T> inline unsigned at_index(const S& s, std::size_t n, const T* const elems[], std::size_t k)
   {
      if (s.size() != n) return 4u;
      const auto& e = *s.position(k);                      // must raise for k >= n
      if (k >= n) return 2u;
      return static_cast<const void*>(&e) != static_cast<const void*>(elems[k]);
   }
   // two reads in any order (an earlier position after a later one, the same one twice, ...): each is the element at that index
   template<class S, class T> inline unsigned at_two(const S& s, std::size_t n, const T* const elems[], std::size_t k, std::size_t j)
   {
      if (k >= n || j >= n) return at_index(s, n, elems, k >= n ? k : j);
      const auto& a = *s.position(k); const auto& b = *s.position(j); const auto& c = *s.position(k);
      return (static_cast<const void*>(&a) != static_cast<const void*>(elems[k]) ? 1u : 0u) | (static_cast<const void*>(&b) != static_cast<const void*>(elems[j]) ? 8u : 0u) | (static_cast<const void*>(&c) != static_cast<const void*>(elems[k]) ? 8u : 0u);
   }
   unsigned p_ref_sequence(const Expr& a, const Expr& b, std::size_t k, std::size_t j) { auto* s = new impl::ref_sequence<Expr>{ }; s->push_back(&a); s->push_back(&b); const Expr* el[2] = { &a, &b }; return at_two(static_cast<const Sequence<Expr>&>(*s), 2, el, k, j); }
   unsigned p_obj_list(impl::Lexicon& lx, const Region& r, const Name& n, const Type& t, const Name& m, const Type& u, std::size_t k, std::size_t j)
   { auto* b = lx.make_block(r); const Handler* el[3]; el[0] = b->new_handler(n, t); el[1] = b->new_handler(m, u); el[2] = b->new_handler(n, u); return at_two(static_cast<const ipr::Block&>(*b).handlers(), 3, el, k, j); }
   // read / append interleaved: read the current last element, append, read the new last one and the old ones again
   unsigned p_obj_list_interleaved(impl::Lexicon& lx, const Region& r, const Name& n, const Type& t, const Name& m, const Type& u, std::size_t k)
   {
      auto* b = lx.make_block(r); const ipr::Sequence<Handler>& hs = static_cast<const ipr::Block&>(*b).handlers(); unsigned bad = 0;
      const Handler* el[3];
      el[0] = b->new_handler(n, t); if (hs.size() != 1 || &*hs.position(0) != el[0]) bad |= 1u;
      el[1] = b->new_handler(m, u); if (hs.size() != 2 || &*hs.position(1) != el[1] || &*hs.position(0) != el[0]) bad |= 8u;
      if (&*hs.position(1) != el[1]) bad |= 8u;                                       // the current last element, once more
      el[2] = b->new_handler(n, u); if (hs.size() != 3 || &*hs.position(2) != el[2]) bad |= 8u;     // ... then the element appended after that read
      if (&*hs.position(1) != el[1] || &*hs.position(0) != el[0] || &*hs.position(2) != el[2]) bad |= 8u;
      return bad | at_index(hs, 3, el, k);
   }
   // a secondary template declared under a name whose first declaration is NOT a template: primary_template() has no template to report
   unsigned p_secondary_template_after_var(const Name& n, const Type& t, const ipr::Forall& q)
   {
      auto& r = *new impl::Region{ Optional<ipr::Region>{ } };
      (void)r.declare_var(n, t);
      const ipr::Template& s = *r.declare_secondary_template(n, q);
      const ipr::Template& p = s.primary_template();                                  // refused (logic error) unless a primary template exists
      return p.category != Category_code::Template;                                   // whatever is returned must at least BE a template
   }
   unsigned p_obj_sequence(impl::Lexicon& lx, const Region& r, Enum::Kind kd, const Name& n, const Name& m, std::size_t k, std::size_t j)
   { auto* e = lx.make_enum(r, kd); const Enumerator* el[2]; el[0] = e->add_member(n); el[1] = e->add_member(m); return at_two(static_cast<const ipr::Enum&>(*e).members(), 2, el, k, j); }
   unsigned p_empty_sequence(impl::Lexicon& lx, const Region& r, const Name& n, const Type& t, std::size_t k)
   { auto* b = lx.make_block(r); auto* h = b->new_handler(n, t); const Handler* el[1] = { nullptr }; return at_index(static_cast<const ipr::Block&>(h->body()).handlers(), 0, el, k); }
   unsigned p_singleton_ref(const Expr& a, std::size_t k) { auto* s = new impl::singleton_ref<Expr>{ a }; const Expr* el[1] = { &a }; return at_index(static_cast<const Sequence<Expr>&>(*s), 1, el, k); }
   unsigned p_singleton_obj(impl::Lexicon& lx, const Region& r, const Name& n, const Type& t, std::size_t k)
   { auto* b = lx.make_block(r); auto* h = b->new_handler(n, t); const ipr::Region& eh = static_cast<const ipr::Handler&>(*h).body().region().enclosing(); const Decl* el[1] = { &static_cast<const ipr::Handler&>(*h).exception() }; return at_index(eh.bindings().elements(), 1, el, k); }
   unsigned p_typed_sequence(impl::Lexicon& lx, const Expr& a, const Expr& b, std::size_t k)
   { auto* l = lx.make_expr_list(); l->push_back(&a); l->push_back(&b); const Type* el[2] = { &a.type(), &b.type() }; return at_index(static_cast<const Sequence<Type>&>(l->type().operand()), 2, el, k); }
}
