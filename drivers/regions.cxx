// Driver TU for C12: one function per region-opening construct.  Each builds the construct through the real constructors /
// factories from the harness's operands (the region given is a REAL region: a root or a subregion made by the library) and returns
// a mask of the property's clauses that do not hold (0 = all hold).  Written from the property text and <ipr/interface>.
#include <impl.cxx>
#include <traversal.cxx>      // default visitor hooks: a changed tree may ask for a node's category through util::view
#include "factory_lib.hxx"
namespace drv {
   using L = impl::Lexicon;
   inline impl::Region& root() { return *new impl::Region{ Optional<ipr::Region>{ } }; }        // a region nobody encloses (as unit_base makes)
   inline bool owned_by(const ipr::Region& r, const ipr::Expr& e) { return r.owner().is_valid() && &r.owner().get() == &e; }
   // walking outward from r reaches `top` in exactly k steps and only `top` reports itself global
   inline bool reaches(const ipr::Region& r, const ipr::Region& top, int k)
   {
      const ipr::Region* w = &r;
      for (int i = 0; i < 6; ++i) { if (i == k) break; if (w->global()) return false; w = &w->enclosing(); }
      return w == &top && w->global();
   }
   unsigned r_subregion(void)
   {
      impl::Region& g = root(); unsigned bad = 0;
      impl::Region* a = g.make_subregion(); impl::Region* b = a->make_subregion(); impl::Region* c = g.make_subregion();
      const ipr::Region& ia = *a; const ipr::Region& ib = *b; const ipr::Region& ic = *c; const ipr::Region& ig = g;
      if (!ig.global()) bad |= 1u;                                            // the root is global
      if (&ia.enclosing() != &ig || &ib.enclosing() != &ia || &ic.enclosing() != &ig) bad |= 2u;     // enclosed by the region it was created in
      if (ia.global() || ib.global() || ic.global()) bad |= 4u;             // only the root reports itself global
      if (!reaches(ib, ig, 2) || !reaches(ia, ig, 1) || !reaches(ig, ig, 0)) bad |= 8u;              // walking outward reaches the root
      if (a == b || a == c || b == c) bad |= 16u;
      return bad;
   }
   template<class U> inline unsigned udt_clauses(const U& u, const ipr::Region& parent)
   {
      unsigned bad = 0; const ipr::Region& r = u.region();
      if (&r.enclosing() != &parent) bad |= 1u;
      if (!owned_by(r, u)) bad |= 2u;
      if (r.global()) bad |= 4u;
      return bad;
   }
   // the region a construct is created in: a subregion, a mapping's parameter region, a lambda's parameter region, a class body,
   // a block, a namespace body (chosen by the harness) -- all made by the library from one root
   inline const ipr::Region& some_region(L& lx, impl::Region& g, int kind)
   {
      impl::Region* p = g.make_subregion();
      switch (kind) {
      case 1: return static_cast<const ipr::Mapping&>(*lx.make_mapping(*p, Mapping_level{ 1 })).parameters().region();
      case 2: return static_cast<const ipr::Lambda&>(*lx.make_lambda(*p, Mapping_level{ 1 })).parameters().region();
      case 3: return static_cast<const ipr::Class&>(*lx.make_class(*p)).region();
      case 4: return static_cast<const ipr::Block&>(*lx.make_block(*p)).region();
      case 5: return static_cast<const ipr::Namespace&>(*lx.make_namespace(*p)).region();
      default: return *p;
      }
   }
   unsigned r_class(L& lx, int kind) { impl::Region& g = root(); const ipr::Region& p = some_region(lx, g, kind); const ipr::Class& u = *lx.make_class(p); return udt_clauses(u, p); }
   unsigned r_union(L& lx, int kind) { impl::Region& g = root(); const ipr::Region& p = some_region(lx, g, kind); const ipr::Union& u = *lx.make_union(p); return udt_clauses(u, p); }
   unsigned r_namespace(L& lx, int kind) { impl::Region& g = root(); const ipr::Region& p = some_region(lx, g, kind); const ipr::Namespace& u = *lx.make_namespace(p); return udt_clauses(u, p); }
   unsigned r_closure(L& lx, int kind) { impl::Region& g = root(); const ipr::Region& p = some_region(lx, g, kind); const ipr::Closure& u = *lx.make_closure(p); return udt_clauses(u, p); }
   unsigned r_enum(L& lx, Enum::Kind k, int kind) { impl::Region& g = root(); const ipr::Region& p = some_region(lx, g, kind); const ipr::Enum& u = *lx.make_enum(p, k); return udt_clauses(u, p); }
   unsigned r_block(L& lx, Optional<Type> t, int kind) { impl::Region& g = root(); const ipr::Region& p = some_region(lx, g, kind); const ipr::Block& b = *lx.make_block(p, t); return udt_clauses(b, p); }
   unsigned r_handler(L& lx, const Name& n, const Type& t)
   {
      impl::Region& g = root(); impl::Region* p = g.make_subregion();
      impl::Block* blk = lx.make_block(*p); const ipr::Block& b = *blk;
      const ipr::Handler& h = *blk->new_handler(n, t);
      const ipr::Region& body = h.body().region(); unsigned bad = 0;
      if (!owned_by(body, h.body())) bad |= 1u;                                                // the body's region names the body block as owner
      const ipr::Region& eh = body.enclosing();
      if (eh.bindings().size() != 1 || &*eh.bindings().begin() != &h.exception()) bad |= 2u;    // enclosed by a region binding exactly the exception parameter
      if (&eh.enclosing() != &b.region().enclosing() || &eh.enclosing() != static_cast<const ipr::Region*>(p)) bad |= 4u;       // itself enclosed by the region that encloses the guarded block
      if (!reaches(body, g, 3)) bad |= 16u;
      if (&h.exception().name() != &n || &h.exception().type() != &t) bad |= 32u;
      return bad;
   }
   // a catch-all handler: the exception type is the built-in `...` type (a library constant, not a foreign node)
   unsigned r_handler_ellipsis(L& lx, const Name& n) { return r_handler(lx, n, lx.ellipsis_type()); }
   unsigned r_handler_builtin(L& lx, const Name& n) { return r_handler(lx, n, lx.int_type()); }
   template<class M> inline unsigned parameters_clauses(M* m, impl::Parameter_list& inputs, const ipr::Expr& owner, bool owned, const ipr::Region& parent, Mapping_level lv, const Name& n0, const Type& t0, const Name& n1, const Type& t1)
   {
      unsigned bad = 0; const ipr::Parameter_list& pl = m->parameters(); const ipr::Region& r = pl.region();
      if (&r.enclosing() != &parent) bad |= 1u;
      if (owned && !owned_by(r, owner)) bad |= 2u;
      if (pl.level() != lv) bad |= 4u;
      const ipr::Parameter& p0 = *inputs.add_member(n0, t0); const ipr::Parameter& p1 = *inputs.add_member(n1, t1);
      if (p0.position() != Decl_position{0} || p1.position() != Decl_position{1}) bad |= 8u;     // zero-based position
      if (p0.level() != lv || p1.level() != lv) bad |= 16u;                                    // nesting level
      if (&p0.home_region() != &r || &p1.home_region() != &r) bad |= 32u;                      // home region
      if (pl.size() != 2 || &*pl.begin() != &p0) bad |= 64u;
      if (&p0.name() != &n0 || &p1.type() != &t1) bad |= 128u;
      return bad;
   }
   unsigned r_mapping(L& lx, Mapping_level lv, const Name& n0, const Type& t0, const Name& n1, const Type& t1)
   { impl::Region& g = root(); impl::Region* p = g.make_subregion(); impl::Mapping* m = lx.make_mapping(*p, lv); return parameters_clauses(m, m->inputs, *m, true, *p, lv, n0, t0, n1, t1); }
   unsigned r_lambda(L& lx, Mapping_level lv, const Name& n0, const Type& t0, const Name& n1, const Type& t1)
   { impl::Region& g = root(); impl::Region* p = g.make_subregion(); impl::Lambda* m = lx.make_lambda(*p, lv); return parameters_clauses(m, m->inputs, *m, true, *p, lv, n0, t0, n1, t1); }
   unsigned r_requires(L& lx, Mapping_level lv, const Name& n0, const Type& t0, const Name& n1, const Type& t1)
   { impl::Region& g = root(); impl::Region* p = g.make_subregion(); impl::Requires* m = lx.make_requires(*p, lv); return parameters_clauses(m, m->formals, *m, false, *p, lv, n0, t0, n1, t1); }
   unsigned r_where(L& lx) { impl::Region& g = root(); impl::Region* p = g.make_subregion(); impl::Where* w = lx.make_where(*p); return &static_cast<const ipr::Region&>(w->region).enclosing() != static_cast<const ipr::Region*>(p); }
   unsigned r_enumerators(L& lx, Enum::Kind k, const Name& n0, const Name& n1)
   {
      impl::Region& g = root(); impl::Enum* e = lx.make_enum(g, k); const ipr::Enum& ie = *e; unsigned bad = 0;
      const ipr::Enumerator& a = *e->add_member(n0); const ipr::Enumerator& b = *e->add_member(n1);
      if (a.position() != Decl_position{0} || b.position() != Decl_position{1}) bad |= 1u;
      if (&a.home_region() != &ie.region() || &b.home_region() != &ie.region()) bad |= 2u;
      if (ie.members().size() != 2 || &*ie.members().begin() != &a) bad |= 4u;
      if (&a.name() != &n0 || &b.name() != &n1) bad |= 8u;
      return bad;
   }
   unsigned r_bases(L& lx, const Type& t0, const Type& t1)
   {
      impl::Region& g = root(); impl::Class* c = lx.make_class(g); const ipr::Class& ic = *c; unsigned bad = 0;
      const ipr::Base_type& a = *c->declare_base(t0); const ipr::Base_type& b = *c->declare_base(t1);
      if (a.position() != Decl_position{0} || b.position() != Decl_position{1}) bad |= 1u;
      // the home region of a base is the class's base-specifier region: the region whose bindings are exactly the bases, in order
      const ipr::Region& hr = a.home_region();
      if (&b.home_region() != &hr || hr.bindings().size() != 2 || &*hr.bindings().begin() != &a || &*hr.bindings().elements().position(1) != &b) bad |= 2u;
      if (ic.bases().size() != 2 || &*ic.bases().begin() != &a) bad |= 4u;
      if (&a.type() != &t0 || &b.type() != &t1) bad |= 8u;
      return bad;
   }
   template<class U> inline unsigned unit_clauses(const U& u, L& lx)
   {
      unsigned bad = 0; const ipr::Namespace& ns = u.global_namespace(); const ipr::Region& r = ns.region();
      if (!r.global()) bad |= 1u;                                                       // the unit's root region is global
      if (!owned_by(r, ns)) bad |= 2u;                                                  // and names the global namespace as owner
      if (ns.name().category != Category_code::Identifier || static_cast<const ipr::Identifier&>(ns.name()).string().size() != 0) bad |= 4u;   // unnamed
      if (&static_cast<const ipr::Expr&>(ns).type() != &lx.namespace_type()) bad |= 8u;                                // typed `namespace`
      return bad;
   }
   unsigned r_translation_unit(L& lx) { auto* u = new impl::Translation_unit{ lx }; return unit_clauses(static_cast<const ipr::Translation_unit&>(*u), lx); }
   unsigned r_module_units(L& lx)
   {
      auto* m = new impl::Module{ lx }; const ipr::Module& im = *m; unsigned bad = unit_clauses(im.interface_unit(), lx);
      if (&im.interface_unit().parent_module() != &im) bad |= 16u;                     // module units link back to their module
      impl::Module_unit* mu = m->make_unit(); const ipr::Module_unit& iu = *mu;
      bad |= unit_clauses(iu, lx) << 8;
      if (&iu.parent_module() != &im) bad |= 32u;
      if (im.implementation_units().size() != 1 || &*im.implementation_units().begin() != &iu) bad |= 64u;
      impl::Region* s = mu->global_region()->make_subregion();
      if (!reaches(*s, iu.global_namespace().region(), 1)) bad |= 128u;                // walking outward from the unit's regions ends at ITS global region
      return bad;
   }
}
