// Driver TU for C07: declaration histories entered into a REAL scope, every clause of the property evaluated after the history.
// The history (which name and which type each declaration uses) is chosen by the harness; names and types are foreign nodes.
#include <impl.cxx>
#include "factory_lib.hxx"
namespace drv {
   using L = impl::Lexicon;
   constexpr int MAXH = 4;      // histories of up to four declarations (the quick tier uses three, the thorough tier four)
   struct Hist { const ipr::Decl* d[MAXH]; const ipr::Name* n[MAXH]; const ipr::Type* t[MAXH]; int k; };
   inline impl::Region& root() { return *new impl::Region{ Optional<ipr::Region>{ } }; }
   inline int first_same(const Hist& h, int i) { for (int j = 0; j < MAXH; ++j) if (j < h.k && h.n[j] == h.n[i] && h.t[j] == h.t[i]) return j; return i; }
   // every clause of C07 on scope `s` after history `h`; `other_name`, `other_type` were never used
   unsigned scope_clauses(const ipr::Scope& s, const Hist& h, const ipr::Name& other_name, const ipr::Type& other_type)
   {
      unsigned bad = 0;
      if (s.size() != static_cast<std::size_t>(h.k)) bad |= 1u;
      for (int i = 0; i < MAXH; ++i) if (i < h.k && &*s.elements().position(i) != h.d[i]) bad |= 1u;                         // lists every declaration in entry order
      const ipr::Product& ty = static_cast<const ipr::Product&>(static_cast<const ipr::Expr&>(s).type());
      if (ty.size() != static_cast<std::size_t>(h.k)) bad |= 2u;
      for (int i = 0; i < MAXH; ++i) if (i < h.k && &ty[i] != h.t[i]) bad |= 2u;                                              // its type is the product of their types in order
      for (int i = 0; i < MAXH; ++i) if (i < h.k) {
         Optional<ipr::Overload> ov = s[*h.n[i]];
         if (!ov.is_valid()) { bad |= 4u; continue; }                                                                          // a declared name yields an overload set
         Optional<ipr::Decl> sel = ov.get()[*h.t[i]];
         if (!sel.is_valid() || &sel.get() != h.d[first_same(h, i)]) bad |= 8u;                                               // selecting by type yields the FIRST declaration with that name and type
         if (ov.get()[other_type].is_valid()) bad |= 16u;                                                                     // a type never declared under that name selects nothing
      }
      if (s[other_name].is_valid()) bad |= 32u;                                                                               // a name never declared yields nothing
      for (int i = 0; i < MAXH; ++i) if (i < h.k) {
         const ipr::Decl& d = *h.d[i]; int j = first_same(h, i);
         if (&d.master() != h.d[j]) bad |= 64u;                                                                                // master = the first declaration with its name and type
         const ipr::Sequence<ipr::Decl>& ds = d.decl_set(); std::size_t m = 0;
         for (int q = 0; q < MAXH; ++q) if (q < h.k && h.n[q] == h.n[i] && h.t[q] == h.t[i]) { if (m >= ds.size() || &*ds.position(m) != h.d[q]) bad |= 128u; ++m; }
         if (ds.size() != m) bad |= 128u;                                                                                      // decl-set = exactly the declarations sharing name and type, in entry order
         if (&d.name() != h.n[i] || &static_cast<const ipr::Expr&>(d).type() != h.t[i]) bad |= 256u;                           // declarations report their name and type
      }
      return bad;
   }
   // heterogeneous scope: variables (ni / ti choose name and type of each declaration from pools of two)
   unsigned s_vars(const Name& n0, const Name& n1, const Name& n2, const Type& t0, const Type& t1, const Type& t2, int k, int ni0, int ni1, int ni2, int ni3, int ti0, int ti1, int ti2, int ti3)
   {
      impl::Region& r = root(); Hist h; h.k = k;
      const Name* ns[2] = { &n0, &n1 }; const Type* ts[2] = { &t0, &t1 }; int ni[MAXH] = { ni0, ni1, ni2, ni3 }; int ti[MAXH] = { ti0, ti1, ti2, ti3 };
      unsigned bad = 0;
      for (int i = 0; i < MAXH; ++i) if (i < k) {
         h.n[i] = ns[ni[i]]; h.t[i] = ts[ti[i]];
         {  // query, declare, query: the very name and type about to be declared are looked up first (expected: found iff declared earlier)
            bool declared = false, named = false;
            for (int j = 0; j < MAXH; ++j) if (j < i) { if (h.n[j] == h.n[i]) named = true; if (h.n[j] == h.n[i] && h.t[j] == h.t[i]) declared = true; }
            Optional<ipr::Overload> ov = static_cast<const ipr::Region&>(r).bindings()[*h.n[i]];
            if (ov.is_valid() != named) bad |= 4u;
            if (ov.is_valid() && ov.get()[*h.t[i]].is_valid() != declared) bad |= 16u;
         }
         h.d[i] = r.declare_var(*h.n[i], *h.t[i]);
         {  // ... and the very same question again right after the declaration: now it must be found
            Optional<ipr::Overload> ov = static_cast<const ipr::Region&>(r).bindings()[*h.n[i]];
            Hist q = h; q.k = i + 1;
            if (!ov.is_valid()) bad |= 4u;
            else { Optional<ipr::Decl> sel = ov.get()[*h.t[i]]; if (!sel.is_valid() || &sel.get() != h.d[first_same(q, i)]) bad |= 8u; }
         }
         Hist p = h; p.k = i + 1; bad |= scope_clauses(r.bindings(), p, n2, t2);                                               // the clauses hold after EVERY step of the history
      }
      return bad;
   }
   // one name declared with THREE distinct types, entered in the order (a, b, c) of their address ranks: every selection by type after every step
   unsigned s_types3(const Name& n0, const Name& other, const Type& t0, const Type& t1, const Type& t2, const Type& t3, int a, int b, int c)
   {
      impl::Region& r = root(); Hist h; h.k = 3; const Type* ts[3] = { &t0, &t1, &t2 }; int ord[3] = { a, b, c }; unsigned bad = 0;
      for (int i = 0; i < 3; ++i) {
         h.n[i] = &n0; h.t[i] = ts[ord[i]]; h.d[i] = r.declare_var(n0, *h.t[i]);
         Hist p = h; p.k = i + 1; bad |= scope_clauses(r.bindings(), p, other, t3);
         for (int j = 0; j < 3; ++j) {                       // the complete selection matrix: declared types select their declaration, the others nothing
            bool declared = false; const ipr::Decl* d = nullptr;
            for (int q = 0; q <= i; ++q) if (h.t[q] == ts[j]) { declared = true; d = h.d[q]; }
            Optional<ipr::Decl> sel = static_cast<const ipr::Region&>(r).bindings()[n0].get()[*ts[j]];
            if (sel.is_valid() != declared || (declared && &sel.get() != d)) bad |= 8u;
         }
      }
      return bad;
   }
   // the other declaration kinds take the same path (Scope::make_*): one declaration then a redeclaration, kinds mixed
   unsigned s_mixed(const Name& n0, const Name& n2, const Type& t0, const Type& t2, const ipr::Function& f0, const ipr::Forall& q0, int which)
   {
      impl::Region& r = root(); Hist h; h.k = 2; unsigned bad = 0;
      if (which == 0) { h.n[0] = h.n[1] = &n0; h.t[0] = h.t[1] = &t0; h.d[0] = r.declare_field(n0, t0); h.d[1] = r.declare_field(n0, t0); }
      else if (which == 1) { h.n[0] = h.n[1] = &n0; h.t[0] = h.t[1] = &t0; h.d[0] = r.declare_bitfield(n0, t0); h.d[1] = r.declare_bitfield(n0, t0); }
      else if (which == 2) { h.n[0] = h.n[1] = &n0; h.t[0] = h.t[1] = &t0; h.d[0] = r.declare_type(n0, t0); h.d[1] = r.declare_type(n0, t0); }
      else if (which == 3) { h.n[0] = h.n[1] = &n0; h.t[0] = h.t[1] = &f0; h.d[0] = r.declare_fun(n0, f0); h.d[1] = r.declare_fun(n0, f0); }
      else if (which == 4) { h.n[0] = h.n[1] = &n0; h.t[0] = h.t[1] = &q0; h.d[0] = r.declare_primary_template(n0, q0); h.d[1] = r.declare_secondary_template(n0, q0); }
      else { h.n[0] = h.n[1] = &n0; h.t[0] = h.t[1] = &t0; h.d[0] = r.declare_var(n0, t0); h.d[1] = r.declare_field(n0, t0); }
      return scope_clauses(r.bindings(), h, n2, t2);
   }
   // homogeneous scopes: singleton sets, positions equal to the index
   template<class S> inline unsigned homogeneous_clauses(const S& s, const ipr::Decl* const d[MAXH], const ipr::Name* const n[MAXH], const ipr::Type* const t[MAXH], int k, const ipr::Name& other)
   {
      unsigned bad = 0;
      if (s.size() != static_cast<std::size_t>(k)) bad |= 1u;
      for (int i = 0; i < MAXH; ++i) if (i < k && &*s.elements().position(i) != d[i]) bad |= 1u;
      const ipr::Product& ty = static_cast<const ipr::Product&>(static_cast<const ipr::Expr&>(s).type());
      if (ty.size() != static_cast<std::size_t>(k)) bad |= 2u;
      for (int i = 0; i < MAXH; ++i) if (i < k && t[i] != nullptr && &ty[i] != t[i]) bad |= 2u;
      for (int i = 0; i < MAXH; ++i) if (i < k) {
         if (!s[*n[i]].is_valid()) bad |= 4u;
         if (&d[i]->master() != d[i]) bad |= 64u;
         if (d[i]->decl_set().size() != 1 || &*d[i]->decl_set().begin() != d[i]) bad |= 128u;
         if (&d[i]->name() != n[i]) bad |= 256u;
      }
      if (s[other].is_valid()) bad |= 32u;
      return bad;
   }
   // a member reports the position it was constructed with, for every position (not only small ones)
   unsigned s_position(const Name& n, const Type& t, const Region& r, const ipr::Enum& e, std::size_t pos)
   {
      unsigned bad = 0;
      const ipr::Parameter& p = *new impl::Parameter{ n, t, Decl_position{ pos } };
      if (p.position() != Decl_position{ pos }) bad |= 512u;
      const ipr::Enumerator& en = *new impl::Enumerator{ n, e, Decl_position{ pos } };
      if (en.position() != Decl_position{ pos }) bad |= 512u;
      const ipr::Base_type& b = *new impl::Base_type{ t, r, Decl_position{ pos } };
      if (b.position() != Decl_position{ pos }) bad |= 512u;
      return bad;
   }
   unsigned s_parameters(L& lx, Mapping_level lv, const Name& n0, const Name& n1, const Name& n2, const Name& other, const Type& t0, const Type& t1, const Type& t2, int k)
   {
      impl::Region& g = root(); impl::Mapping* m = lx.make_mapping(g, lv);
      const ipr::Name* n[MAXH] = { &n0, &n1, &n2, &n2 }; const ipr::Type* t[MAXH] = { &t0, &t1, &t2, &t2 }; const ipr::Decl* d[MAXH] = { nullptr, nullptr, nullptr, nullptr }; unsigned bad = 0;
      for (int i = 0; i < 3; ++i) if (i < k) { const ipr::Parameter& p = *m->param(*n[i], *t[i]); d[i] = &p; if (p.position() != Decl_position(i)) bad |= 512u; }     // positions equal to their index
      const ipr::Parameter_list& pl = m->parameters();
      return bad | homogeneous_clauses(pl.region().bindings(), d, n, t, k, other);
   }
   unsigned s_enumerators(L& lx, Enum::Kind kind, const Name& n0, const Name& n1, const Name& n2, const Name& other, int k)
   {
      impl::Region& g = root(); impl::Enum* e = lx.make_enum(g, kind); const ipr::Enum& ie = *e;
      const ipr::Name* n[MAXH] = { &n0, &n1, &n2, &n2 }; const ipr::Type* t[MAXH] = { &ie, &ie, &ie, &ie }; const ipr::Decl* d[MAXH] = { nullptr, nullptr, nullptr, nullptr }; unsigned bad = 0;
      for (int i = 0; i < 3; ++i) if (i < k) { const ipr::Enumerator& p = *e->add_member(*n[i]); d[i] = &p; if (p.position() != Decl_position(i)) bad |= 512u; }
      return bad | homogeneous_clauses(ie.region().bindings(), d, n, t, k, other);
   }
}
