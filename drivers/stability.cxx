// Driver TU for C05's specific stability scenarios (things that must stay as they were when more is created or when the client
// reuses its own storage).  Returns a mask of failed clauses.
#include <impl.cxx>
#include "factory_lib.hxx"
namespace drv {
   using L = impl::Lexicon;
   inline impl::Region& root() { return *new impl::Region{ Optional<ipr::Region>{ } }; }
   // a member sequence only grows at its END: earlier members keep address, index and position; a lookup observed earlier keeps its answer
   unsigned st_parameters(L& lx, Mapping_level lv, const Name& n, const Name& m, const Type& t0, const Type& t1, const Type& t2)
   {
      impl::Region& g = root(); impl::Mapping* mp = lx.make_mapping(g, lv); unsigned bad = 0;
      const ipr::Parameter& p0 = *mp->param(n, t0);
      const ipr::Scope& sc = mp->parameters().region().bindings();
      Optional<ipr::Overload> before = sc[n];
      const ipr::Parameter& p1 = *mp->param(n, t1);                    // same name again (unnamed parameters share the empty identifier)
      const ipr::Parameter& p2 = *mp->param(m, t2);
      Optional<ipr::Overload> after = sc[n];
      if (!before.is_valid() || !after.is_valid() || &before.get() != &after.get()) bad |= 1u;                          // what a name looked up to is still what it looks up to
      const ipr::Parameter_list& pl = mp->parameters();
      if (pl.size() != 3 || &*pl.elements().position(0) != &p0 || &*pl.elements().position(1) != &p1 || &*pl.elements().position(2) != &p2) bad |= 2u;     // new members go at the end
      if (p0.position() != Decl_position{0} || &p0.name() != &n || &p0.type() != &t0) bad |= 4u;                         // an earlier member reads as before
      if (&p0 == &p1 || &p1 == &p2 || &p0 == &p2) bad |= 8u;
      return bad;
   }
   // a token keeps the location it was given: the client's own location object may change or die afterwards
   unsigned st_token_location(L& lx, const String& s, TokenValue v, TokenCategory c, Source_location& cursor, std::uint32_t other)
   {
      impl::Pragma* pg = lx.make_pragma(); unsigned bad = 0;
      Source_location* loc = &cursor; const Line_number line = loc->line; const Column_number col = loc->column; const File_index file = loc->file;      // the client's own cursor object
      const ipr::Token& tk = *pg->tokens.push_back(s, *loc, v, c);
      loc->line = Line_number{ other }; loc->column = Column_number{ other }; loc->file = File_index{ other };        // the scanner advances its cursor
      if (tk.lexeme().locus().line != line || tk.lexeme().locus().column != col || tk.lexeme().locus().file != file) bad |= 1u;
      if (&tk.lexeme().spelling() != &s || tk.value() != v || tk.category() != c) bad |= 2u;
      return bad;
   }
   // redeclaring changes nothing that could be observed through the earlier declaration, except that its declaration-set grew at the end
   unsigned st_redeclaration(const Name& n, const Type& t, const ipr::Forall& q)
   {
      auto& r = *new impl::Region{ Optional<ipr::Region>{ } }; unsigned bad = 0;
      const ipr::Var& v1 = *r.declare_var(n, t);
      const ipr::Decl* m1 = &v1.master(); const ipr::Name* n1 = &v1.name(); const ipr::Type* t1 = &static_cast<const ipr::Expr&>(v1).type();
      const ipr::Template& p1 = *r.declare_primary_template(n, q);
      const ipr::Template* prim = &p1.primary_template();
      const ipr::Var& v2 = *r.declare_var(n, t);                                      // redeclarations
      const ipr::Template& p2 = *r.declare_primary_template(n, q);
      if (&v1.master() != m1 || m1 != &v1 || &v1.name() != n1 || &static_cast<const ipr::Expr&>(v1).type() != t1) bad |= 1u;
      if (&p1.primary_template() != prim || prim != &p1) bad |= 2u;
      if (v1.decl_set().size() != 2 || &*v1.decl_set().position(0) != &v1 || &*v1.decl_set().position(1) != &v2 || p1.decl_set().size() != 2 || &*p1.decl_set().position(1) != &p2) bad |= 4u;
      return bad;
   }
   // Warehouse contents are copied into the Lexicon before a product / sum is keyed on them: the node neither aliases nor follows the caller's object
   unsigned st_warehouse(L& lx, const Type& t, const Type& u)
   {
      unsigned bad = 0;
      auto* w = new impl::Warehouse<Type>{ }; w->push_back(t); w->push_back(u);
      const ipr::Product& p = lx.get_product(*w); const ipr::Sum& sm = lx.get_sum(*w);
      if (p.size() != 2 || &p[0] != &t || &p[1] != &u || sm.size() != 2 || &sm[0] != &t || &sm[1] != &u) bad |= 1u;      // element by element what was asked for
      if (static_cast<const void*>(&p.operand()) == static_cast<const void*>(&static_cast<const ipr::Sequence<Type>&>(w->rep()))) bad |= 2u;      // not the caller's own sequence object
      w->push_back(t);                                                            // the client goes on using its warehouse
      if (p.size() != 2 || &p[0] != &t || &p[1] != &u || sm.size() != 2) bad |= 4u;     // the nodes read as before
      auto* w2 = new impl::Warehouse<Type>{ }; w2->push_back(t); w2->push_back(u);
      if (&lx.get_product(*w2) != &p || &lx.get_sum(*w2) != &sm) bad |= 8u;      // equal contents in another warehouse: the same nodes
      if (&lx.get_product(*w) == &p) bad |= 16u;                                // different contents (three elements now): a different node
      return bad;
   }
   // a unified node obtained earlier is still what the same request returns after other requests, and reads as before
   unsigned st_unified(L& lx, const Type& t, const Type& u, const Expr& e)
   {
      unsigned bad = 0;
      const ipr::Pointer& p = lx.get_pointer(t); const ipr::Type* pointee = &p.points_to();
      (void)lx.get_pointer(u); (void)lx.get_reference(t); (void)lx.get_array(t, e); (void)lx.get_reference(u);
      if (&lx.get_pointer(t) != &p) bad |= 1u;
      if (&p.points_to() != pointee || pointee != &t) bad |= 2u;
      return bad;
   }
}
