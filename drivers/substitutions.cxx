// Driver TU for C16: substitutions as the Lexicon's factories hand them out (the farm in between, several requests in a row).
// Each function returns a mask of failed clauses.
#include <impl.cxx>
#include "factory_lib.hxx"
namespace drv {
   using L = impl::Lexicon;
   inline bool is(const ipr::Expr& a, const ipr::Expr& b) { return &a == &b; }
   // two elementary substitutions requested one after the other: each has exactly the binding it was asked with, whatever was made before
   unsigned sb_elementary_twice(L& lx, const Parameter& p, const Parameter& q, const Parameter& x, const Expr& e, const Expr& f, bool same_param, bool identity)
   {
      unsigned bad = 0;
      const ipr::Substitution& s1 = *lx.make_elementary_substitution(q, e);
      const Parameter& p2 = same_param ? q : p;
      const Expr& v2 = identity ? static_cast<const Expr&>(p2) : f;                // { p -> p } is a legitimate request
      const ipr::Substitution& s2 = *lx.make_elementary_substitution(p2, v2);
      if (!is(s2[p2], v2)) bad |= 1u;                                               // the binding it was built with
      if (!is(s2[x], x) || (!same_param && !is(s2[q], q))) bad |= 2u;               // and no other: not the binding of the substitution made before
      if (!is(s1[q], e) || !is(s1[x], x) || (!same_param && !is(s1[p], p))) bad |= 4u;   // the earlier substitution is what it was
      return bad;
   }
   // a general substitution starts empty, holds the latest binding per parameter, and two of them do not share bindings
   unsigned sb_general_twice(L& lx, const Parameter& p, const Parameter& q, const Parameter& x, const Expr& e, const Expr& f)
   {
      unsigned bad = 0;
      impl::General_substitution& g1 = *lx.make_general_substitution();
      if (!is(g1[p], p) || !is(g1[x], x)) bad |= 1u;                                // empty domain
      g1.subst(p, e);
      impl::General_substitution& g2 = *lx.make_general_substitution();
      if (!is(g2[p], p) || !is(g2[q], q)) bad |= 2u;                                // a new substitution is empty whatever the earlier one holds
      g2.subst(q, f); g1.subst(p, f);                                               // rebinding
      if (!is(g1[p], f) || !is(g1[q], q) || !is(g1[x], x)) bad |= 4u;               // latest binding, nothing from the other substitution
      if (!is(g2[q], f) || !is(g2[p], p) || !is(g2[x], x)) bad |= 8u;
      return bad;
   }
}
