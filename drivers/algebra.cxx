// Driver TU for C10: instantiates the set-algebra operator templates of <ipr/interface> at Specifiers and Qualifiers.
#include <ipr/interface>
namespace drv {
   using S = ipr::Specifiers; using Q = ipr::Qualifiers;
   S s_or(S a, S b) { return a | b; }     S s_and(S a, S b) { return a & b; }     S s_xor(S a, S b) { return a ^ b; }
   S s_or_eq(S a, S b) { a |= b; return a; } S s_and_eq(S a, S b) { a &= b; return a; } S s_xor_eq(S a, S b) { a ^= b; return a; }
   bool s_implies(S a, S b) { return ipr::implies(a, b); }
   Q q_or(Q a, Q b) { return a | b; }     Q q_and(Q a, Q b) { return a & b; }     Q q_xor(Q a, Q b) { return a ^ b; }
   Q q_or_eq(Q a, Q b) { a |= b; return a; } Q q_and_eq(Q a, Q b) { a &= b; return a; } Q q_xor_eq(Q a, Q b) { a ^= b; return a; }
   bool q_implies(Q a, Q b) { return ipr::implies(a, b); }
}
