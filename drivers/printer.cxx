// Driver TU for C18: the printer's functions that move indentation or write bytes themselves, each run once on a foreign node
// with every sub-print (xpr_expr / xpr_stmt / xpr_decl of an operand) replaced by the common contract all of them are proved to
// satisfy: leaves the indentation and the stream's formatting state as found.  Nothing here is verified itself.
#include <io.cxx>
namespace drv {
   using namespace ipr;
   template<class K> inline int stmt_delta(Printer& pp, const K& s) { int before = pp.indent(); xpr::Stmt v(pp); v.visit(s); return pp.indent() - before; }
   int pr_expr_stmt(Printer& pp, const Expr_stmt& s) { return stmt_delta(pp, s); }
   int pr_labeled_stmt(Printer& pp, const Labeled_stmt& s) { return stmt_delta(pp, s); }
   int pr_if(Printer& pp, const If& s) { return stmt_delta(pp, s); }
   int pr_return(Printer& pp, const Return& s) { return stmt_delta(pp, s); }
   int pr_switch(Printer& pp, const Switch& s) { return stmt_delta(pp, s); }
   int pr_while(Printer& pp, const While& s) { return stmt_delta(pp, s); }
   int pr_do(Printer& pp, const Do& s) { return stmt_delta(pp, s); }
   int pr_for(Printer& pp, const For& s) { return stmt_delta(pp, s); }
   int pr_for_in(Printer& pp, const For_in& s) { return stmt_delta(pp, s); }
   int pr_break(Printer& pp, const Break& s) { return stmt_delta(pp, s); }
   int pr_continue(Printer& pp, const Continue& s) { return stmt_delta(pp, s); }
   int pr_goto(Printer& pp, const Goto& s) { return stmt_delta(pp, s); }
   int pr_handler(Printer& pp, const Handler& s) { return stmt_delta(pp, s); }
   // bytes: the literal escaper and the enclosure delimiters
   int pr_literal(Printer& pp, const Literal& l) { int before = pp.indent(); xpr::Primary_expr v(pp); v.visit(l); return pp.indent() - before; }
   int pr_enclosure(Printer& pp, const Enclosure& e) { int before = pp.indent(); xpr::Primary_expr v(pp); v.visit(e); return pp.indent() - before; }
   // numbers go through the raw stream
   int pr_numbers(Printer& pp, Mapping_level l, Decl_position p) { int before = pp.indent(); pp << l; pp << p; return pp.indent() - before; }
   // line breaks
   int pr_newline(Printer& pp) { int before = pp.indent(); pp << newline(); return pp.indent() - before; }
   int pr_newline_and_indent(Printer& pp, int n) { int before = pp.indent(); pp << newline_and_indent(n); return pp.indent() - before - n; }
}
