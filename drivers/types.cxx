// Driver TU for C09: one function per node kind whose type the property prescribes.  Each builds the node through the real
// factories (as a client would) from the harness's foreign operands and compares type() -- read through the INTERFACE -- with
// what the property says.  Expected constants come from the Lexicon's own accessors (C13 proves those).  Nothing here is verified
// itself; cxx2c lowers these bodies together with the real factories, constructors and final overriders.
#include <impl.cxx>
#include "factory_lib.hxx"
namespace drv {
   using L = impl::Lexicon;
   template<class N> inline const Type& type_of(const N& n) { return iface(n).type(); }
   // ---- kind-fixed types
   bool t_break(L& lx) { return same(type_of(*lx.make_break()), lx.void_type()); }
   bool t_continue(L& lx) { return same(type_of(*lx.make_continue()), lx.void_type()); }
   bool t_asm(L& lx, const String& s) { const ipr::Phased_evaluation& d = *lx.make_asm(s); return d.expression().category == Category_code::Asm && same(d.expression().type(), lx.void_type()); }
   bool t_delete_constant(L& lx) { return same(lx.delete_value().type(), lx.void_type()); }
   bool t_static_assert(L& lx, const Expr& e, Optional<String> m) { const ipr::Phased_evaluation& d = *lx.make_static_assert(e, m); return d.expression().category == Category_code::Static_assert && same(d.expression().type(), lx.bool_type()); }
   bool t_requires(L& lx, const Region& r, Mapping_level l) { return same(static_cast<const Expr&>(iface(*lx.make_requires(r, l))).type(), lx.bool_type()); }
   bool t_restriction(L& lx, const Expr& e) { return same(type_of(*lx.make_restriction(e)), lx.bool_type()); }
   bool t_truth(L& lx) { return same(lx.true_value().type(), lx.bool_type()) && same(lx.false_value().type(), lx.bool_type()); }
   bool t_class(L& lx, const Region& r) { return same(static_cast<const Expr&>(iface(*lx.make_class(r))).type(), lx.class_type()); }
   bool t_union(L& lx, const Region& r) { return same(static_cast<const Expr&>(iface(*lx.make_union(r))).type(), lx.union_type()); }
   bool t_enum(L& lx, const Region& r, Enum::Kind k) { return same(static_cast<const Expr&>(iface(*lx.make_enum(r, k))).type(), lx.enum_type()); }
   bool t_namespace(L& lx, const Region& r) { return same(static_cast<const Expr&>(iface(*lx.make_namespace(r))).type(), lx.namespace_type()); }
   bool t_closure(L& lx, const Region& r) { return same(static_cast<const Expr&>(iface(*lx.make_closure(r))).type(), lx.class_type()); }
   // ---- compound types have type `typename`
   bool t_pointer(L& lx, const Type& t) { return same(static_cast<const Expr&>(lx.get_pointer(t)).type(), lx.typename_type()); }
   bool t_reference(L& lx, const Type& t) { return same(static_cast<const Expr&>(lx.get_reference(t)).type(), lx.typename_type()); }
   bool t_rvalue_reference(L& lx, const Type& t) { return same(static_cast<const Expr&>(lx.get_rvalue_reference(t)).type(), lx.typename_type()); }
   bool t_array(L& lx, const Type& t, const Expr& b) { return same(static_cast<const Expr&>(lx.get_array(t, b)).type(), lx.typename_type()); }
   bool t_qualified(L& lx, Qualifiers q, const Type& t) { return same(static_cast<const Expr&>(lx.get_qualified(q, t)).type(), lx.typename_type()); }
   bool t_function(L& lx, const Product& p, const Type& t, const Expr& e) { return same(static_cast<const Expr&>(lx.get_function(p, t, e)).type(), lx.typename_type()); }
   bool t_forall(L& lx, const Product& p, const Type& t) { return same(static_cast<const Expr&>(lx.get_forall(p, t)).type(), lx.typename_type()); }
   bool t_ptr_to_member(L& lx, const Type& c, const Type& t) { return same(static_cast<const Expr&>(lx.get_ptr_to_member(c, t)).type(), lx.typename_type()); }
   bool t_tor(L& lx, const Product& p, const Sum& s) { return same(static_cast<const Expr&>(lx.get_tor(p, s)).type(), lx.typename_type()); }
   bool t_as_type(L& lx, const Expr& e) { return same(static_cast<const Expr&>(lx.get_as_type(e)).type(), lx.typename_type()); }
   bool t_decltype(L& lx, const Expr& e) { return same(static_cast<const Expr&>(lx.get_decltype(e)).type(), lx.typename_type()); }


   // ---- borrowed types: casts and literals report the target type
   bool t_cast(L& lx, const Type& t, const Expr& e) { return same(type_of(*lx.make_cast(t, e)), t); }
   bool t_static_cast(L& lx, const Type& t, const Expr& e) { return same(type_of(*lx.make_static_cast(t, e)), t); }
   bool t_dynamic_cast(L& lx, const Type& t, const Expr& e) { return same(type_of(*lx.make_dynamic_cast(t, e)), t); }
   bool t_const_cast(L& lx, const Type& t, const Expr& e) { return same(type_of(*lx.make_const_cast(t, e)), t); }
   bool t_reinterpret_cast(L& lx, const Type& t, const Expr& e) { return same(type_of(*lx.make_reinterpret_cast(t, e)), t); }
   bool t_literal(L& lx, const Type& t, const String& s) { return same(type_of(*lx.make_literal(t, s)), t); }
   // ---- borrowed types: the designated sub-node
   bool t_rewrite(L& lx, const Expr& s, const Expr& t) { return same(type_of(*lx.make_rewrite(s, t)), t.type()); }
   bool t_where(L& lx, const Expr& m, const Expr& a) { return same(type_of(*lx.make_where(m, a)), m.type()); }
   bool t_where_region(L& lx, const Region& r, const Expr& m) { auto* w = lx.make_where(r); w->result = &m; return same(type_of(*w), m.type()); }
   bool t_expr_stmt(L& lx, const Expr& e) { return same(type_of(*lx.make_expr_stmt(e)), e.type()); }
   bool t_labeled_stmt(L& lx, const Expr& l, const Expr& s) { return same(type_of(*lx.make_labeled_stmt(l, s)), s.type()); }
   bool t_goto(L& lx, const Expr& e) { return same(type_of(*lx.make_goto(e)), e.type()); }
   bool t_while(L& lx, const Expr& c, const Expr& b) { auto* w = lx.make_while(); w->control = &c; w->stmt = &b; return same(type_of(*w), b.type()); }
   bool t_do(L& lx, const Expr& c, const Expr& b) { auto* w = lx.make_do(); w->control = &c; w->stmt = &b; return same(type_of(*w), b.type()); }
   bool t_for(L& lx, const Stmt& b) { auto* w = lx.make_for(); w->stmt = &b; return same(type_of(*w), static_cast<const Expr&>(b).type()); }
   bool t_for_in(L& lx, const Stmt& b) { auto* w = lx.make_for_in(); w->stmt = &b; return same(type_of(*w), static_cast<const Expr&>(b).type()); }
   bool t_handler(L& lx, const Region& r, const Name& n, const Type& t, Optional<Type> bt) { auto* b = lx.make_block(r); auto* h = b->new_handler(n, t); h->body().typing = bt;
      return !bt.is_valid() || same(static_cast<const Expr&>(iface(*h)).type(), static_cast<const Expr&>(iface(*h).body()).type()); }
   bool t_phased_evaluation(L& lx, const Expr& e, Phases p) { return same(static_cast<const Expr&>(iface(*lx.make_phased_evaluation(e, p))).type(), e.type()); }
   bool t_id_expr_decl(L& lx, const Decl& d) { return same(type_of(*lx.make_id_expr(d)), static_cast<const Expr&>(d).type()); }
   // ---- operands that are REAL library nodes (a foreign node cannot be a qualified type, a reference type or a node retyped later)
   bool t_literal_cv(L& lx, const Type& t, const String& s, Qualifiers q)
   {  // the same spelling at a type and at its cv-qualified version: two literals, each reporting its own target type
      const Type& ct = lx.get_qualified(q, t);
      // read through the implementation class (its type() is final): which of the two nodes the table hands back depends on the
      // address order of t and ct, and a dispatch on that undetermined node costs cbmc a 150-way split
      impl::Literal* a = lx.make_literal(t, s); impl::Literal* b = lx.make_literal(ct, s);
      return same(a->type(), t) && same(b->type(), ct);
   }
   bool t_id_expr_reference(L& lx, const Name& n, const Type& t)
   {  // an id-expression of a declaration whose type is a reference: that reference type, not the referee
      auto& r = *new impl::Region{ Optional<ipr::Region>{ } }; auto& r2 = *new impl::Region{ Optional<ipr::Region>{ } };
      const Type& rt = lx.get_reference(t); const Type& rrt = lx.get_rvalue_reference(t);
      const ipr::Decl& v = *r.declare_var(n, rt); const ipr::Decl& w = *r2.declare_var(n, rrt);
      return same(type_of(*lx.make_id_expr(v)), rt) && same(type_of(*lx.make_id_expr(w)), rrt);
   }
   bool t_expr_list_retyped(L& lx, const Expr& a, const Type& t1, const Type& t2)
   {  // the product follows the CURRENT type of an element: read, retype the element, read again
      auto* l = lx.make_expr_list(); const impl::Expr_list& i = *l;
      auto* x = lx.make_address(a, Optional<Type>{ t1 });
      l->push_back(x);
      bool ok = i.type().size() == 1 && same(i.type()[0], t1);
      x->typing = &t2;
      return ok && same(i.type()[0], t2);
   }
   // ---- sequence types track their members: an expression list's type is the product of its CURRENT elements' types in order
   bool t_expr_list(L& lx, const Expr& a, const Expr& b, const Expr& c)
   {
      auto* l = lx.make_expr_list(); const impl::Expr_list& i = *l;     // the covariant Product view of type()
      bool ok = i.type().size() == 0;
      l->push_back(&a); l->push_back(&b);
      ok = ok && i.type().size() == 2 && same(i.type()[0], a.type()) && same(i.type()[1], b.type());
      l->push_back(&c);                                                                                   // a later addition
      return ok && i.type().size() == 3 && same(i.type()[0], a.type()) && same(i.type()[1], b.type()) && same(i.type()[2], c.type());
   }
   bool t_parameter_list(L& lx, const Region& r, Mapping_level lv, const Name& n, const Type& t, const Name& m, const Type& u)
   {
      auto* mp = lx.make_mapping(r, lv); const ipr::Parameter_list& i = mp->parameters();
      bool ok = i.type().size() == 0;
      mp->param(n, t);
      ok = ok && i.type().size() == 1 && same(i.type()[0], t);
      mp->param(m, u);                                                                                    // a later addition
      return ok && i.type().size() == 2 && same(i.type()[0], t) && same(i.type()[1], u);
   }
}
