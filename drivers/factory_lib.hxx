// Generic part of the generated factory drivers (C02, C06, C09, C12, C14): helpers that compare what a node reports with what
// the factory was given, written against the INTERFACE classes only.  Nothing here is verified itself; cxx2c lowers the
// instantiations together with the real factory, the constructor chain clang selected and the real final overriders.
#include <ipr/impl>
#include <ipr/traversal>
namespace drv {
   using namespace ipr;
   // --- the interface view of an implementation node: the T of the impl::Node<T> it derives from (what a client sees)
   template<class X> requires requires { typename X::Interface; } inline const typename X::Interface& iface(const X& n) { return n; }
   template<class X> requires (!requires { typename X::Interface; }) inline const X& iface(const X& n) { return n; }
   // --- factories return pointers or references
   template<class T> inline const T& deref(T* p) { return *p; }
   template<class T> inline const T& deref(const T* p) { return *p; }
   template<class T> requires std::is_class_v<T> inline const T& deref(const T& r) { return r; }
   // --- identity of operands: nodes by address, Optional by presence and address, scalars and enumerations by value
   template<class T> requires std::is_class_v<T> inline bool same(const T& got, const T& want) { return &got == &want; }
   template<class T> requires (!std::is_class_v<T>) inline bool same(T got, T want) { return got == want; }
   template<class T> inline bool same(Optional<T> got, Optional<T> want) { return got.is_valid() == want.is_valid() && (!want.is_valid() || &got.get() == &want.get()); }
   template<class T> inline bool same(Optional<T> got, const T& want) { return got.is_valid() && &got.get() == &want; }
   template<class T> inline bool same(const T& got, Optional<T> want) { return want.is_valid() && &got == &want.get(); }
   template<class T, class U> requires (!std::is_same_v<T, U> && std::derived_from<U, T>) inline bool same(const T& got, const U& want) { return &got == static_cast<const T*>(&want); }
   template<class T, class U> requires (!std::is_same_v<T, U> && std::derived_from<U, T>) inline bool same(Optional<T> got, const U& want) { return got.is_valid() && &got.get() == static_cast<const T*>(&want); }
   template<class T, class U> requires (!std::is_same_v<T, U> && std::derived_from<U, T>) inline bool same(Optional<T> got, Optional<U> want) { return got.is_valid() == want.is_valid() && (!want.is_valid() || &got.get() == static_cast<const T*>(&want.get())); }
   inline bool same(util::word_view got, util::word_view want) { return got.data() == want.data() && got.size() == want.size(); }
   // --- the category code the static interface type prescribes, and its declared super-category
   template<Category_code C, class B> constexpr Category_code static_code(const Category<C, B>&) { return C; }
   template<class I> requires requires(const I& i) { i.category; } inline bool category_ok(const I& i) { return i.category == static_code(i); }
   template<class I> requires (!requires(const I& i) { i.category; }) inline bool category_ok(const I&) { return true; }     // not a Node (declarator forms, attributes, captures)
}
