// Driver TU for C19: construction histories followed by destruction, for the two places where the library itself allocates
// (the owning red-black container and the string arena).  cbmc's memory-leak check decides whether everything was returned.
#include <ipr/utility>
#include <utility.cxx>
namespace drv {
   struct long_cmp { int operator()(long a, long b) const { return a < b ? -1 : (b < a ? 1 : 0); } };
   using tree = ipr::util::rb_tree::container<long>;
   void l_tree(long k0, long k1, long k2, long k3, int n)
   {
      tree* t = new tree;
      if (n > 0) t->insert(k0, long_cmp{ });
      if (n > 1) t->insert(k1, long_cmp{ });
      if (n > 2) t->insert(k2, long_cmp{ });
      if (n > 3) t->insert(k3, long_cmp{ });
      t->~tree();
      operator delete(t);
   }
   using arena = ipr::util::string::arena;
   void l_arena(const char8_t* s, long n0, long n1, long n2, int n)
   {
      arena* a = new arena;
      if (n > 0) a->make_string(s, n0);
      if (n > 1) a->make_string(s, n1);
      if (n > 2) a->make_string(s, n2);
      a->~arena();
      operator delete(a);
   }
}
