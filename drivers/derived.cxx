// Driver TU for C15: one thin wrapper per derived (inline, non-virtual) interface operation named by the property, so that
// the real inline bodies of <ipr/interface> and <ipr/ancillary> are instantiated and lowered.  Nothing here is verified itself.
#include <ipr/interface>
namespace drv {
   using namespace ipr;
   using Seq = Sequence<Expr>; using It = Seq::Iterator;
   bool seq_empty(const Seq& s) { return s.empty(); }
   It seq_begin(const Seq& s) { return s.begin(); }
   It seq_end(const Seq& s) { return s.end(); }
   It seq_position(const Seq& s, std::size_t i) { return s.position(i); }
   const Expr& it_deref(It i) { return *i; }
   const Expr* it_arrow(It i) { return i.operator->(); }
   It it_preinc(It i) { return ++i; }
   It it_predec(It i) { return --i; }
   It it_postinc(It i, It* after) { It r = i++; *after = i; return r; }
   It it_postdec(It i, It* after) { It r = i--; *after = i; return r; }
   bool it_eq(It a, It b) { return a == b; }
   bool it_ne(It a, It b) { return a != b; }

   std::size_t product_size(const Product& p) { return p.size(); }
   const Type& product_at(const Product& p, std::size_t i) { return p[i]; }
   std::size_t sum_size(const Sum& p) { return p.size(); }
   const Type& sum_at(const Sum& p, std::size_t i) { return p[i]; }
   std::size_t expr_list_size(const Expr_list& l) { return l.size(); }
   std::size_t scope_size(const Scope& s) { return s.size(); }
   Scope::Iterator scope_begin(const Scope& s) { return s.begin(); }
   Scope::Iterator scope_end(const Scope& s) { return s.end(); }
   std::size_t plist_size(const Parameter_list& l) { return l.size(); }
   auto plist_begin(const Parameter_list& l) { return l.begin(); }
   auto plist_end(const Parameter_list& l) { return l.end(); }

   const Scope& class_scope(const Class& c) { return c.scope(); }
   const Sequence<Decl>& class_members(const Class& c) { return c.members(); }
   const Sequence<Decl>& union_members(const Union& c) { return c.members(); }
   const Sequence<Decl>& namespace_members(const Namespace& c) { return c.members(); }
   const Scope& enum_scope(const Enum& e) { return e.scope(); }

   const Sequence<Expr>& block_body(const Block& b) { return b.body(); }
   bool block_try(const Block& b) { return b.try_block(); }
   const Parameter_list& template_parameters(const Template& t) { return t.parameters(); }
   const Expr& template_result(const Template& t) { return t.result(); }
   Optional<Expr> parameter_default(const Parameter& p) { return p.default_value(); }
   const Linkage& type_linkage(const Type& t) { return t.linkage(); }
   const Linkage& transfer_linkage(const Transfer& t) { return t.linkage(); }
   const Calling_convention& transfer_convention(const Transfer& t) { return t.convention(); }

   bool logo_eq(const Logogram& a, const Logogram& b) { return a == b; }
   bool logo_ne(const Logogram& a, const Logogram& b) { return a != b; }
   bool cc_eq(const Calling_convention& a, const Calling_convention& b) { return a == b; }
   bool cc_ne(const Calling_convention& a, const Calling_convention& b) { return a != b; }
   bool link_eq(const Linkage& a, const Linkage& b) { return a == b; }
   bool link_ne(const Linkage& a, const Linkage& b) { return a != b; }
   bool xfer_eq(const Transfer& a, const Transfer& b) { return a == b; }
   bool xfer_ne(const Transfer& a, const Transfer& b) { return a != b; }
   bool bspec_eq(Basic_specifier a, Basic_specifier b) { return a == b; }
   bool bspec_ne(Basic_specifier a, Basic_specifier b) { return a != b; }
   bool bqual_ne(Basic_qualifier a, Basic_qualifier b) { return a != b; }
   bool string_ne(const String& a, const String& b) { return a != b; }
   bool bqual_eq(Basic_qualifier a, Basic_qualifier b) { return a == b; }
   bool string_eq(const String& a, const String& b) { return a == b; }
}
