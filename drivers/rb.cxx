// Driver TU for C08: only includes IPR headers and instantiates the tree templates at test types.
// Nothing here is verified; the functions under contract are the template bodies of /repo/include/ipr/utility.
#include <ipr/utility>
namespace drv {
   struct long_cmp {
      int operator()(long a, long b) const { return a < b ? -1 : (b < a ? 1 : 0); }
   };
   using tree = ipr::util::rb_tree::container<long>;
   long* insert(tree& c, long k) { return c.insert(k, long_cmp{}); }
   long* find(const tree& c, long k) { return c.find(k, long_cmp{}); }

   // intrusive flavour
   struct N : ipr::util::rb_tree::link<N> { long key; };
   struct n_cmp {
      int operator()(const N& a, const N& b) const { return a.key < b.key ? -1 : (b.key < a.key ? 1 : 0); }
      int operator()(const N& a, long b) const { return a.key < b ? -1 : (b < a.key ? 1 : 0); }
   };
   using chain = ipr::util::rb_tree::chain<N>;
   N* cinsert(chain& c, N* z) { return c.insert(z, n_cmp{}); }
   N* cfind(const chain& c, long k) { return c.find(k, n_cmp{}); }
}
