#!/usr/bin/env python3
"""print the prompt given to a seeding sub-agent: property text + its scratch worktree, nothing from /verif"""
import json, sys
pid, wt, n = sys.argv[1], sys.argv[2], (sys.argv[3] if len(sys.argv) > 3 else '2')
p = [json.loads(l) for l in open('/verif/properties.jsonl') if json.loads(l)['id'] == pid][0]
print(f"""You are helping to evaluate a verification effort by playing the role of a developer who introduces a subtle regression.

The project is GabrielDosReis/ipr (IPR: a compiler-neutral, hash-consed internal representation library for C++ programs). You have your own scratch git worktree of it at {wt} (do ALL your work there; do not touch /repo or /verif, do not read anything under /verif). It builds with:
  cmake -G Ninja -B {wt}/_build -S {wt} && cmake --build {wt}/_build      (about 1 minute; offline; g++ 12, clang 14 available)
and its test suite runs with:
  ctest --test-dir {wt}/_build -j8

Here is a semantic property the library is supposed to satisfy:

  Title: {p['title']}
  Statement: {p['statement']}
  Quantified over: {p['quantifier']['text']}

Your task: produce {n} DIFFERENT source changes to the library (files under include/ipr or src in the worktree; not the tests), each of which
  (a) BREAKS the property above,
  (b) still compiles, and the existing test suite (ctest above) still passes with it,
  (c) needs something specific to manifest -- a particular multi-step sequence of operations, an unusual input (boundary size, particular byte values, a particular count of insertions that triggers a rebalancing or a pool roll-over ...), or two cooperating sites that each look fine alone -- and is NOT exposed at once by ordinary simple use. Make it look like a plausible mistake or a plausible "optimisation"/refactoring a real developer could make, small (a few lines).
For each change also write a small stand-alone demonstration program (C++20, includes <ipr/impl> etc., links against the library sources or {wt}/_build/libipr.a) that exits 0 on the original code and exits non-zero (or crashes) with your change applied, demonstrating the property violation through the public API (or a class derived from the utility templates where the property is about those).

Deliver, for change k = 1..{n}, the files
  {wt}/seed_out/<k>/patch.diff      (git diff of the library change only, relative to the worktree's HEAD, applicable with `git apply`)
  {wt}/seed_out/<k>/demo.cxx        (the demonstration)
  {wt}/seed_out/<k>/notes.md        (what the change is, why it breaks the property, exactly what is needed for it to manifest, the command lines you used to build/run the demo, and the observed outputs with and without the change)
Verify everything yourself: demo passes (exit 0) without the patch, fails with it; ctest passes with it. Leave the worktree with the library sources restored to HEAD at the end (git checkout -- include src) but keep seed_out/. Remove your _build directory at the end to save disk space.
In your final message, summarise each change in 2-3 lines.""")
