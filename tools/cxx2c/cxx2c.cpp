// cxx2c: lower clang-instantiated, overload-resolved C++ functions of /repo to C for CBMC.
// See /verif/DESIGN.md section 3.  Aborts (exit 2) on anything outside its subset.
#include "clang/AST/ASTConsumer.h"
#include "clang/AST/RecursiveASTVisitor.h"
#include "clang/AST/RecordLayout.h"
#include "clang/AST/Mangle.h"
#include "clang/AST/StmtVisitor.h"
#include "clang/AST/CXXInheritance.h"
#include "clang/AST/QualTypeNames.h"
#include "clang/Frontend/CompilerInstance.h"
#include "clang/Frontend/FrontendAction.h"
#include "clang/Tooling/Tooling.h"
#include "clang/Tooling/CommonOptionsParser.h"
#include "llvm/Support/CommandLine.h"
#include <set>
#include <map>
#include <deque>
#include <sstream>
using namespace clang;
static llvm::cl::OptionCategory Cat("cxx2c");
static llvm::cl::list<std::string> Roots("root", llvm::cl::desc("qualified name of root function"), llvm::cl::cat(Cat));
static llvm::cl::list<std::string> RootPrefixes("root-prefix", llvm::cl::desc("prefix of qualified names of root functions"), llvm::cl::cat(Cat));
static llvm::cl::opt<bool> Tolerant("tolerant", llvm::cl::desc("record unsupported constructs and continue"), llvm::cl::cat(Cat));
static llvm::cl::list<std::string> RootsMangled("root-mangled", llvm::cl::desc("sanitised mangled name of root function"), llvm::cl::cat(Cat));
static llvm::cl::list<std::string> Outline("outline", llvm::cl::desc("<sanitised mangled name>#<loop ordinal>: also emit a step function for that loop"), llvm::cl::cat(Cat));
static llvm::cl::list<std::string> TransparentRec("transparent-std-record", llvm::cl::desc("prefix of std record names lowered field by field"), llvm::cl::cat(Cat));
static llvm::cl::list<std::string> TransparentFn("transparent-std-fn", llvm::cl::desc("prefix of qualified names of std functions lowered from their libstdc++ bodies"), llvm::cl::cat(Cat));
static llvm::cl::list<std::string> VirtualRoots("virtual-root", llvm::cl::desc("qualified name of a virtual method for which a dynamic dispatcher is wanted by the harness"), llvm::cl::cat(Cat));
static llvm::cl::opt<std::string> OutC("out", llvm::cl::desc("output C file"), llvm::cl::cat(Cat));
static llvm::cl::opt<std::string> OutJson("json", llvm::cl::desc("output JSON index"), llvm::cl::cat(Cat));
static llvm::cl::opt<bool> Catalogue("catalogue", llvm::cl::desc("emit the class catalogue into the JSON index"), llvm::cl::cat(Cat));
static std::map<std::string, std::set<std::string>> UnsupportedLog; // what -> functions

struct Unsupported { std::string what; };

struct Lower {
  ASTContext& C;
  std::unique_ptr<MangleContext> MC;
  std::map<const CXXRecordDecl*, std::string> recName; std::map<std::string, int> lambdaOrd;
  std::vector<const CXXRecordDecl*> recOrder;      // emission order (dependencies first)
  std::set<const CXXRecordDecl*> recDone, recBusy;
  std::map<const FunctionDecl*, std::string> fnName;
  std::deque<const FunctionDecl*> work;
  std::set<const FunctionDecl*> fnSeen;
  std::string structs, protos, bodies;
  int tmpId = 0;
  std::set<std::string> stdStubs, stdStubNames; std::set<const VarDecl*> globalsSeen; std::string globalDecls;
  explicit Lower(ASTContext& c) : C(c), MC(c.createMangleContext()) {}

  static std::string sanitize(std::string s) {
    for (auto& ch : s) if (!isalnum((unsigned char)ch)) ch = '_';
    return s;
  }
  std::string mangle(const NamedDecl* D) {
    std::string mn; llvm::raw_string_ostream os(mn);
    if (auto* CD = dyn_cast<CXXConstructorDecl>(D)) MC->mangleName(GlobalDecl(CD, Ctor_Complete), os);
    else if (auto* DD = dyn_cast<CXXDestructorDecl>(D)) MC->mangleName(GlobalDecl(DD, Dtor_Complete), os);
    else MC->mangleName(llvm::cast<NamedDecl>(D), os);
    return sanitize(os.str());
  }
  bool isStd(const Decl* D) {
    const DeclContext* DC = D->getDeclContext();
    while (DC) { if (auto* NS = dyn_cast<NamespaceDecl>(DC)) if (NS->isStdNamespace()) return true; DC = DC->getParent(); }
    return false;
  }
  // ---- types
  std::string rec(const CXXRecordDecl* RD) {
    RD = RD->getDefinition() ? RD->getDefinition() : RD;
    auto it = recName.find(RD);
    if (it != recName.end()) return it->second;
    std::string mn; llvm::raw_string_ostream os(mn);
    std::string n;
    if (RD->isLambda()) {
      // closure types get clang-internal numbers that depend on mangling order; name them after their context instead
      if (auto* CV = dyn_cast_or_null<VarDecl>(RD->getLambdaContextDecl())) n = "Slambda_" + mangle(CV);
      else if (!isa<FunctionDecl>(RD->getDeclContext())) {
        for (auto* D : RD->getDeclContext()->decls()) if (auto* V = dyn_cast<VarDecl>(D)) if (auto* VR = V->getType().getNonReferenceType()->getAsCXXRecordDecl()) if (VR->getDefinition() == RD) { n = "Slambda_" + mangle(V); break; }
      }
      else if (auto* CF = dyn_cast<FunctionDecl>(RD->getDeclContext())) { std::string base = "Slambda_" + mangle(CF); int k = lambdaOrd[base]++; n = base + "_" + std::to_string(k); }
    }
    if (n.empty()) { MC->mangleTypeName(QualType(RD->getTypeForDecl(), 0), os); n = "S" + sanitize(os.str()); }
    recName[RD] = n;
    return n;
  }
  void needRecord(const CXXRecordDecl* RD) {
    RD = RD->getDefinition();
    if (!RD || recDone.count(RD)) return;
    if (recBusy.count(RD)) return; // cycle through pointer only
    recBusy.insert(RD);
    std::string body;
    if (isOpaque(RD)) {
      // opaque blob of the right size
      const ASTRecordLayout& L = C.getASTRecordLayout(RD);
      body = "  char __opaque[" + std::to_string(std::max<long>(1, L.getSize().getQuantity())) + "];\n";
    } else {
      int bi = 0;
      if (isPolyRoot(RD)) body += "  int __cls; /* dynamic class of the complete object: (class id << 5) | index of this root subobject */\n";
      for (auto& B : RD->bases()) {
        if (B.isVirtual()) throw Unsupported{"virtual base class"};
        auto* BD = B.getType()->getAsCXXRecordDecl();
        needRecord(BD);
        body += "  struct " + rec(BD) + " __b" + std::to_string(bi++) + ";\n";
      }
      for (auto* F : RD->fields()) {
        if (F->isUnnamedBitfield()) continue;
        // bit-fields keep their declared width: values are truncated on store exactly as in the C++ object
        body += "  " + declare(F->getType(), fieldName(F), true) + (F->isBitField() ? " : " + std::to_string(F->getBitWidthValue(C)) : std::string()) + ";\n";
      }
      if (body.empty()) body = "  char __empty;\n";
    }
    structs += "struct " + rec(RD) + " { /* " + QualType(RD->getTypeForDecl(),0).getAsString() + " */\n" + body + "};\n";
    recDone.insert(RD); recBusy.erase(RD);
  }
  // C declaration of a variable `name` of type T. byValueNeedsDef: ensure record definitions emitted first.
  std::string declare(QualType T, const std::string& name, bool needDef = true) {
    T = T.getCanonicalType();
    if (T->isReferenceType()) return declare(C.getPointerType(T->getPointeeType()), name, needDef);
    if (auto* PT = T->getAs<PointerType>()) {
      QualType P = PT->getPointeeType().getCanonicalType();
      if (P->isFunctionType()) throw Unsupported{"function pointer type"};
      if (P->isArrayType()) return declare(P, "(*" + name + ")", false);
      return declare(P, "*" + name, false);
    }
    if (auto* AT = C.getAsConstantArrayType(T)) {
      return declare(AT->getElementType(), name + "[" + std::to_string(AT->getSize().getZExtValue()) + "]", needDef);
    }
    if (auto* RT = T->getAs<RecordType>()) {
      auto* RD = llvm::cast<CXXRecordDecl>(RT->getDecl());
      if (needDef) needRecord(RD);
      return "struct " + rec(RD) + " " + name;
    }
    if (T->isEnumeralType()) return declare(T->getAs<EnumType>()->getDecl()->getIntegerType(), name, needDef);
    if (T->isBooleanType()) return "_Bool " + name;
    if (T->isVoidType()) return "void " + name;
    if (T->isNullPtrType()) return "void *" + name;
    if (auto* BT = T->getAs<BuiltinType>()) {
      switch (BT->getKind()) {
        case BuiltinType::Char_S: case BuiltinType::SChar: return "signed char " + name;
        case BuiltinType::Char_U: case BuiltinType::UChar: case BuiltinType::Char8: return "unsigned char " + name;
        case BuiltinType::Short: return "short " + name;
        case BuiltinType::UShort: return "unsigned short " + name;
        case BuiltinType::Int: return "int " + name;
        case BuiltinType::UInt: return "unsigned int " + name;
        case BuiltinType::Long: return "long " + name;
        case BuiltinType::ULong: return "unsigned long " + name;
        case BuiltinType::LongLong: return "long long " + name;
        case BuiltinType::ULongLong: return "unsigned long long " + name;
        default: break;
      }
    }
    throw Unsupported{"type " + T.getAsString()};
  }
  // ---- functions
  std::string fn(const FunctionDecl* FD) {
    if (auto* Def = FD->getDefinition()) FD = Def;
    auto it = fnName.find(FD);
    if (it != fnName.end()) return it->second;
    std::string n = mangle(FD);
    fnName[FD] = n;
    if (!fnSeen.count(FD)) { fnSeen.insert(FD); work.push_back(FD); }
    return n;
  }
  // ---- exceptions: throw E(...) becomes __ipr_throw(id); id = (index << 1) | derives-from-std::logic_error
  std::vector<std::pair<std::string,int>> excIds;
  static bool isNamed(const CXXRecordDecl* RD, const char* q) { return RD->getQualifiedNameAsString() == q; }
  static bool derivesLogicError(const CXXRecordDecl* RD) {
    RD = RD->getDefinition(); if (!RD) return false;
    if (isNamed(RD, "std::logic_error")) return true;
    for (auto& B : RD->bases()) if (auto* BD = B.getType()->getAsCXXRecordDecl()) if (derivesLogicError(BD)) return true;
    return false;
  }
  std::string excId(QualType T) {
    auto* RD = T->getAsCXXRecordDecl();
    std::string q = RD ? RD->getQualifiedNameAsString() : T.getAsString();
    std::string m = "IPR_EXC_" + sanitize(q);
    for (auto& e : excIds) if (e.first == m) return m;
    int id = (int)((excIds.size() + 1) << 1) | (RD && derivesLogicError(RD) ? 1 : 0);
    excIds.push_back({m, id});
    return m;
  }
  std::string throwExpr(const CXXThrowExpr* X) {
    if (!X->getSubExpr()) throw Unsupported{"rethrow"};
    return "__ipr_throw(" + excId(X->getSubExpr()->getType()) + ")";
  }
  bool isRefVar(const ValueDecl* D) { return D->getType()->isReferenceType(); }
  std::map<const VarDecl*, std::string> varName; std::map<std::string,int> varCount;
  std::string vn(const VarDecl* VD) {
    auto it = varName.find(VD); if (it != varName.end()) return it->second;
    std::string base = "v_" + VD->getNameAsString();
    int k = varCount[base]++;
    std::string n = k ? base + "_" + std::to_string(k) : base;
    return varName[VD] = n;
  }

  // ---- variables with static storage duration
  std::vector<const VarDecl*> globalOrder; std::string globalDefs; std::vector<std::string> globalJson;
  std::string global(const VarDecl* VD) {
    if (auto* D = VD->getDefinition()) VD = D; else if (auto* I = VD->getInitializingDeclaration()) VD = I;
    std::string g = "g_" + mangle(VD);
    if (globalsSeen.count(VD)) return VD->getType()->isReferenceType() ? "(*" + g + ")" : g;
    globalsSeen.insert(VD);
    QualType T = VD->getType();
    if (auto* LR = T.getNonReferenceType()->getAsCXXRecordDecl()) if (LR->isLambda()) {   // a named lambda object: its call operators are reachable through std algorithms
      if (auto* CO = LR->getLambdaCallOperator()) {
        if (auto* FT = CO->getDescribedFunctionTemplate()) { for (auto* Sp : FT->specializations()) if (Sp->getDefinition() && Sp->getDefinition()->hasBody()) fn(Sp); }
        else fn(CO);
      }
    }
    globalDecls += "extern " + declare(T, g) + "; /* " + VD->getQualifiedNameAsString() + " */\n";
    bool isConst = T.isConstQualified() || T->isReferenceType() || VD->isConstexpr();
    std::string init; bool haveInit = false;
    if ((isConst || VD->isStaticLocal()) && VD->hasInit() && !VD->getInit()->isValueDependent()) {
      if (const APValue* V = VD->evaluateValue()) {
        try { init = apv(*V, T); haveInit = true; } catch (Unsupported& u) { init = "/* " + u.what + " */"; }
      }
      if (!haveInit && VD->isStaticLocal()) throw Unsupported{"static local with dynamic initialisation: " + VD->getQualifiedNameAsString()};
    } else if (VD->isStaticLocal() && !VD->hasInit()) { init = "{0}"; haveInit = true; if (!T->isRecordType() && !T->isArrayType()) init = "0"; }
    if (haveInit) globalDefs += declare(T, g) + " = " + init + ";\n";
    else if (!init.empty()) globalDefs += "/* no constant initialiser emitted for " + g + ": " + init + " */\n";
    globalJson.push_back("{\"name\": \"" + g + "\", \"qualified\": \"" + jsonEsc(VD->getQualifiedNameAsString()) + "\", \"const\": " + (isConst ? "true" : "false") + ", \"defined\": " + (haveInit ? "true" : "false") + ", \"type\": \"" + jsonEsc(T.getAsString()) + "\"}");
    return T->isReferenceType() ? "(*" + g + ")" : g;
  }
  int baseIndex(const CXXRecordDecl* D, const CXXRecordDecl* B) {
    int bi = 0; for (auto& X : D->getDefinition()->bases()) { if (X.getType()->getAsCXXRecordDecl()->getDefinition() == B->getDefinition()) return bi; bi++; }
    return -1;
  }
  std::string fieldName(const FieldDecl* F) { return "f_" + (F->getName().empty() ? "cap" + std::to_string(F->getFieldIndex()) : F->getNameAsString()); }
  // C constant initialiser for a value computed by clang's constant evaluator
  std::string apv(const APValue& V, QualType T, const CXXRecordDecl* mostDerived = nullptr, const std::string& pathInMD = "") {
    T = T.getCanonicalType();
    switch (V.getKind()) {
      case APValue::Int: return llvm::toString(V.getInt(), 10);
      case APValue::Struct: {
        auto* RD = T->getAsCXXRecordDecl(); if (!RD) throw Unsupported{"apvalue struct of non-record"};
        RD = RD->getDefinition();
        if (isOpaque(RD)) throw Unsupported{"apvalue of opaque std record " + RD->getQualifiedNameAsString()};
        std::string r = "{"; bool first = true; unsigned bi = 0;
        if (!mostDerived) mostDerived = RD;
        if (isPolyRoot(RD)) {
          std::vector<std::pair<std::string, const CXXRecordDecl*>> roots; polyRootPaths(mostDerived, "", roots); int k = -1;
          for (size_t i = 0; i < roots.size(); ++i) if (roots[i].first == pathInMD) k = (int)i;
          if (k < 0) throw Unsupported{"apvalue: polymorphic root not found in most derived class"};
          r += std::to_string((clsId(mostDerived) << 5) | k); first = false;
        }
        for (auto& B : RD->bases()) { r += (first ? "" : ", ") + apv(V.getStructBase(bi), B.getType(), mostDerived, pathInMD + ".__b" + std::to_string(bi)); bi++; first = false; }
        for (auto* F : RD->fields()) { r += (first ? "" : ", ") + apv(V.getStructField(F->getFieldIndex()), F->getType()); first = false; }
        if (first) r += "0";
        return r + "}";
      }
      case APValue::Array: {
        auto* AT = C.getAsConstantArrayType(T); if (!AT) throw Unsupported{"apvalue array type"};
        unsigned n = V.getArraySize(), k = V.getArrayInitializedElts();
        std::string r = "{";
        for (unsigned i = 0; i < n; ++i) r += (i ? ", " : "") + apv(i < k ? V.getArrayInitializedElt(i) : V.getArrayFiller(), AT->getElementType());
        if (n == 0) r += "0";
        return r + "}";
      }
      case APValue::LValue: {
        if (V.isNullPointer() || !V.getLValueBase()) { if (!V.getLValueOffset().isZero()) throw Unsupported{"apvalue integer-as-pointer"}; return "0"; }
        if (!V.hasLValuePath()) throw Unsupported{"apvalue lvalue without path"};
        auto B = V.getLValueBase(); std::string r; QualType cur;
        if (auto* D = B.dyn_cast<const ValueDecl*>()) {
          auto* VD = dyn_cast<VarDecl>(D); if (!VD || !VD->hasGlobalStorage()) throw Unsupported{"apvalue lvalue base decl"};
          r = global(VD); cur = VD->getType().getNonReferenceType();
        } else if (auto* E = B.dyn_cast<const Expr*>()) {
          if (auto* SL = dyn_cast<clang::StringLiteral>(E->IgnoreParens())) { r = strLit(SL); cur = SL->getType();
            auto P = V.getLValuePath(); if (P.empty()) return r;
            if (P.size() != 1) throw Unsupported{"apvalue string path"};
            return "(&" + r + "[" + std::to_string(P[0].getAsArrayIndex()) + "])"; }
          throw Unsupported{std::string("apvalue lvalue base expr ") + E->getStmtClassName()};
        } else throw Unsupported{"apvalue lvalue base kind"};
        for (auto& Ent : V.getLValuePath()) {
          cur = cur.getCanonicalType();
          if (auto* AT = C.getAsArrayType(cur)) { r = r + "[" + std::to_string(Ent.getAsArrayIndex()) + "]"; cur = AT->getElementType(); continue; }
          const Decl* D = Ent.getAsBaseOrMember().getPointer();
          if (auto* F = dyn_cast<FieldDecl>(D)) { r = "(" + r + ")." + fieldName(F); cur = F->getType(); }
          else if (auto* BR = dyn_cast<CXXRecordDecl>(D)) { int bi = baseIndex(cur->getAsCXXRecordDecl(), BR); if (bi < 0) throw Unsupported{"apvalue base path"}; r = "(" + r + ").__b" + std::to_string(bi); cur = QualType(BR->getTypeForDecl(), 0); }
          else throw Unsupported{"apvalue path entry"};
        }
        return "(&" + r + ")";
      }
      default: throw Unsupported{"apvalue kind " + std::to_string((int)V.getKind())};
    }
  }
  std::string strLit(const clang::StringLiteral* X) {
    std::string r = "\""; for (unsigned char ch : X->getBytes()) { char b[8]; snprintf(b, sizeof b, "\\%03o", ch); r += b; } r += "\"";
    if (X->getCharByteWidth() != 1) throw Unsupported{"wide string literal"};
    return "((unsigned char*)" + r + ")";
  }
  bool isOpaque(const CXXRecordDecl* RD) {
    if (!isStd(RD)) return false;
    std::string q = RD->getQualifiedNameAsString();
    for (auto& p : TransparentRec) if (q.rfind(p, 0) == 0) return false;
    return true;
  }
  // lvalue-or-rvalue C expression text for E. For glvalues yields an lvalue expression.
  std::string ex(const Expr* E) {
    if (!Tolerant) return exImpl(E);
    try { return exImpl(E); } catch (Unsupported& u) { UnsupportedLog[u.what].insert(curFn ? curFn->getQualifiedNameAsString() : "?"); return "UNSUPPORTED"; }
  }
  // value of E is discarded (expression statement, for-increment, left operand of a comma)
  bool discardTop = false;
  std::string exDiscard(const Expr* E) {
    const Expr* I = E->IgnoreParens();
    if (auto* W = dyn_cast<ExprWithCleanups>(I)) I = W->getSubExpr()->IgnoreParens();
    if (auto* B = dyn_cast<BinaryOperator>(I)) if (B->isAssignmentOp()) { discardTop = true; std::string r = ex(B); discardTop = false; return r; }
    if (auto* U = dyn_cast<UnaryOperator>(I)) if (U->isIncrementDecrementOp()) { discardTop = true; std::string r = ex(U); discardTop = false; return r; }
    return ex(E);
  }
  std::string exImpl(const Expr* E) {
    E = E->IgnoreParens();
    bool dt = discardTop; discardTop = false;
    if (auto* X = dyn_cast<ExprWithCleanups>(E)) return ex(X->getSubExpr());
    if (E->isPRValue() && !E->isValueDependent() && E->getType()->isIntegralOrEnumerationType() && !isa<IntegerLiteral>(E) && !isa<CXXBoolLiteralExpr>(E)) {
      Expr::EvalResult R;
      if (E->EvaluateAsInt(R, C, Expr::SE_NoSideEffects) && !R.HasSideEffects && R.Val.isInt()) {
        std::string v = llvm::toString(R.Val.getInt(), 10);
        QualType T = E->getType().getCanonicalType();
        if (T->isBooleanType()) return R.Val.getInt().getBoolValue() ? "1" : "0";
        return "((" + declareAbstract(T) + ")" + v + (R.Val.getInt().isSigned() ? "L" : "UL") + ")";
      }
    }
    if (auto* X = dyn_cast<ConstantExpr>(E)) return ex(X->getSubExpr());
    if (auto* X = dyn_cast<UnaryExprOrTypeTraitExpr>(E)) { (void)X; throw Unsupported{"non-constant sizeof/alignof"}; }
    if (auto* X = dyn_cast<ImplicitValueInitExpr>(E)) { if (X->getType()->isRecordType() || X->getType()->isArrayType()) return "((" + declareAbstract(X->getType()) + "){0})"; return "((" + declareAbstract(X->getType()) + ")0)"; }
    if (auto* X = dyn_cast<CXXScalarValueInitExpr>(E)) return "((" + declareAbstract(X->getType()) + ")0)";
    if (auto* X = dyn_cast<SubstNonTypeTemplateParmExpr>(E)) return ex(X->getReplacement());
    if (auto* X = dyn_cast<MaterializeTemporaryExpr>(E)) {
      // temporary object: C compound literal gives an lvalue
      const Expr* S = X->getSubExpr();
      return "(*(" + declareAbstract(S->getType()) + "[]){" + ex(S) + "})";
    }
    if (auto* X = dyn_cast<CXXBindTemporaryExpr>(E)) return ex(X->getSubExpr());
    if (auto* X = dyn_cast<IntegerLiteral>(E)) {
      std::string v = llvm::toString(X->getValue(), 10, X->getType()->isSignedIntegerType());
      if (auto* BT = X->getType()->getAs<BuiltinType>()) switch (BT->getKind()) {
        case BuiltinType::UInt: return v + "U"; case BuiltinType::Long: return v + "L"; case BuiltinType::ULong: return v + "UL";
        case BuiltinType::LongLong: return v + "LL"; case BuiltinType::ULongLong: return v + "ULL"; default: break; }
      return v;
    }
    if (auto* X = dyn_cast<CXXBoolLiteralExpr>(E)) return X->getValue() ? "1" : "0";
    if (isa<CXXNullPtrLiteralExpr>(E)) return "((void*)0)";
    if (isa<CXXThisExpr>(E)) return lambdaThis.empty() ? "self" : lambdaThis;
    if (auto* X = dyn_cast<DeclRefExpr>(E)) {
      const ValueDecl* D = X->getDecl();
      if (auto* EC = dyn_cast<EnumConstantDecl>(D)) return llvm::toString(EC->getInitVal(), 10);
      if (auto* FD = dyn_cast<FunctionDecl>(D)) return fn(FD);
      if (auto* VD = dyn_cast<VarDecl>(D)) {
        auto ci = captureField.find(VD);
        if (ci != captureField.end()) { std::string r = "self->f_" + (ci->second->getName().empty() ? "cap" + std::to_string(ci->second->getFieldIndex()) : ci->second->getNameAsString()); return ci->second->getType()->isReferenceType() ? "(*" + r + ")" : r; }
        if (VD->hasGlobalStorage() && !isa<ParmVarDecl>(VD)) return global(VD);
        std::string n = vn(VD);
        return isRefVar(VD) ? "(*" + n + ")" : n;
      }
      throw Unsupported{"declref"};
    }
    if (auto* X = dyn_cast<MemberExpr>(E)) {
      auto* FD = dyn_cast<FieldDecl>(X->getMemberDecl());
      if (!FD) throw Unsupported{"member non-field"};
      std::string b = ex(X->getBase());
      std::string r = X->isArrow() ? "(" + b + ")->f_" + FD->getNameAsString() : "(" + b + ").f_" + FD->getNameAsString();
      return FD->getType()->isReferenceType() ? "(*" + r + ")" : r;
    }
    if (auto* X = dyn_cast<ArraySubscriptExpr>(E)) return "(" + ex(X->getBase()) + ")[" + ex(X->getIdx()) + "]";
    if (auto* X = dyn_cast<UnaryOperator>(E)) {
      bool wasDiscard = dt;
      std::string s = ex(X->getSubExpr());
      switch (X->getOpcode()) {
        case UO_AddrOf: return "(&" + s + ")";
        case UO_Deref: return "(*" + s + ")";
        case UO_LNot: return "(!" + s + ")";
        case UO_Minus: return "(-" + s + ")";
        case UO_Not: return "(~" + s + ")";
        case UO_PreInc: case UO_PreDec: {
          std::string op = X->getOpcode() == UO_PreInc ? "++" : "--";
          if (!X->isGLValue() || wasDiscard) return "(" + op + s + ")";
          std::string pt = declareAbstract(C.getPointerType(X->getSubExpr()->getType())), t = "__a" + std::to_string(tmpId++);
          return "(*({ " + pt + " " + t + " = &(" + s + "); " + op + "*" + t + "; " + t + "; }))";
        }
        case UO_PostInc: return "(" + s + "++)";
        case UO_PostDec: return "(" + s + "--)";
        default: throw Unsupported{"unary op"};
      }
    }
    if (auto* X = dyn_cast<BinaryOperator>(E)) {
      if (X->getOpcode() == BO_Comma) return "(" + exDiscard(X->getLHS()) + ", " + ex(X->getRHS()) + ")";
      if (X->isAssignmentOp() && X->isGLValue() && !dt) {
        // in C++ an assignment is an lvalue designating its left operand; in C it is not
        std::string pt = declareAbstract(C.getPointerType(X->getLHS()->getType())), t = "__a" + std::to_string(tmpId++);
        return "(*({ " + pt + " " + t + " = &(" + ex(X->getLHS()) + "); *" + t + " " + X->getOpcodeStr().str() + " " + ex(X->getRHS()) + "; " + t + "; }))";
      }

      return "(" + ex(X->getLHS()) + " " + X->getOpcodeStr().str() + " " + ex(X->getRHS()) + ")";
    }
    if (auto* X = dyn_cast<ConditionalOperator>(E)) {
      if (X->isGLValue()) {
        std::string pt = declareAbstract(C.getPointerType(X->getType()));
        auto armp = [&](const Expr* A) { auto* TE = dyn_cast<CXXThrowExpr>(A->IgnoreParenImpCasts()); return TE ? "(" + throwExpr(TE) + ", (" + pt + ")0)" : "&" + ex(A); };
        return "(*(" + ex(X->getCond()) + " ? " + armp(X->getTrueExpr()) + " : " + armp(X->getFalseExpr()) + "))";
      }
      auto armv = [&](const Expr* A) { auto* TE = dyn_cast<CXXThrowExpr>(A->IgnoreParenImpCasts()); if (!TE) return ex(A);
        if (X->getType()->isVoidType()) return throwExpr(TE);
        if (X->getType()->isRecordType()) return "(" + throwExpr(TE) + ", (" + declareAbstract(X->getType()) + "){0})";
        return "(" + throwExpr(TE) + ", (" + declareAbstract(X->getType()) + ")0)"; };
      return "(" + ex(X->getCond()) + " ? " + armv(X->getTrueExpr()) + " : " + armv(X->getFalseExpr()) + ")";
    }
    if (auto* X = dyn_cast<CastExpr>(E)) return lowerCast(X);
    if (auto* X = dyn_cast<CXXNewExpr>(E)) {
      if (X->isArray()) throw Unsupported{"array new"};
      if (X->getNumPlacementArgs() > 1) throw Unsupported{"placement new with several placement arguments"};
      QualType T = X->getAllocatedType();
      // plain `new T(args)`: storage from operator new (never null, fresh), then the constructor clang selected
      std::string p = X->getNumPlacementArgs() == 1 ? ex(X->getPlacementArg(0)) : "__ipr_alloc(sizeof(" + declareAbstract(T) + "))";
      if (T->isRecordType()) {
        auto* CE = X->getConstructExpr();
        if (!CE) throw Unsupported{"placement new without construct expr"};
        std::string pt = declareAbstract(C.getPointerType(T));
        std::string t = "__p" + std::to_string(tmpId++);
        return "({ " + pt + " " + t + " = (" + pt + ")(" + p + "); " + ctorCall(CE->getConstructor(), t, CE) + "; " + t + "; })";
      }
      std::string pt = declareAbstract(C.getPointerType(T));
      const Expr* I = X->getInitializer();
      return "(*(" + pt + ")(" + p + ") = " + (I ? ex(I) : std::string("0")) + ", (" + pt + ")(" + p + "))";
    }
    if (auto* X = dyn_cast<CXXFunctionalCastExpr>(E)) return lowerCast(X);
    if (auto* X = dyn_cast<InitListExpr>(E)) {
      if (!X->getType()->isRecordType()) { if (X->getNumInits()==1) return ex(X->getInit(0)); if (X->getNumInits()==0) return "0"; }
      else if (X->isGLValue() || (X->getNumInits()==1 && C.hasSameUnqualifiedType(X->getInit(0)->getType(), X->getType()))) return ex(X->getInit(0));
      else if (X->getType()->getAsCXXRecordDecl() && isOpaque(X->getType()->getAsCXXRecordDecl()->getDefinition())) return "((" + declareAbstract(X->getType()) + "){0})";
      else { std::string r = "((" + declareAbstract(X->getType()) + "){"; if (X->getNumInits()==0) r += "0";
        auto* RD = X->getType()->getAsCXXRecordDecl(); std::vector<const FieldDecl*> fs; if (RD && RD->getNumBases()==0) for (auto* F : RD->fields()) fs.push_back(F);
        for (unsigned i=0;i<X->getNumInits();++i) { bool ref = i < fs.size() && fs[i]->getType()->isReferenceType(); r += (i?", ":"") + (ref ? "&" + ex(X->getInit(i)) : ex(X->getInit(i))); }
        return r + "})"; }
    }
    if (auto* X = dyn_cast<CXXConstructExpr>(E)) {
      auto* CD = X->getConstructor();
      if (CD->isTrivial() || CD->getParent()->isEmpty()) {
        if (X->getNumArgs() == 0 || (CD->getParent()->isEmpty() && !CD->isCopyOrMoveConstructor())) return "((" + declareAbstract(X->getType()) + "){0})";
        return ex(X->getArg(0));
      }
      std::string T = declareAbstract(X->getType());
      std::string t = "__t" + std::to_string(tmpId++);
      return "({ " + T + " " + t + "; " + ctorCall(CD, "&" + t, X) + "; " + t + "; })";
    }
    if (auto* X = dyn_cast<CXXDefaultArgExpr>(E)) return ex(X->getExpr());
    if (auto* X = dyn_cast<CXXDefaultInitExpr>(E)) return ex(X->getExpr());
    if (auto* X = dyn_cast<CXXThrowExpr>(E)) return throwExpr(X);
    if (auto* X = dyn_cast<CXXTemporaryObjectExpr>(E)) (void)X;
    if (auto* X = dyn_cast<CXXRewrittenBinaryOperator>(E)) return ex(X->getSemanticForm());
    if (auto* X = dyn_cast<CharacterLiteral>(E)) return std::to_string(X->getValue());
    if (auto* X = dyn_cast<clang::StringLiteral>(E)) {
      return "(*(unsigned char(*)[" + std::to_string(X->getLength() + 1) + "])" + strLit(X) + ")";
    }
    if (auto* X = dyn_cast<LambdaExpr>(E)) {
      auto* RD = X->getLambdaClass(); needRecord(RD);
      if (!RD->isGenericLambda()) fn(X->getCallOperator());
      else if (auto* FT = X->getCallOperator()->getDescribedFunctionTemplate())   // generic lambda: every instantiated call operator (they are called from std algorithms, which are stubs)
        for (auto* Sp : FT->specializations()) if (Sp->getDefinition() && Sp->getDefinition()->hasBody()) fn(Sp);
      std::string r = "((" + declareAbstract(QualType(RD->getTypeForDecl(),0)) + "){";
      bool first = true; auto FI = RD->field_begin();
      for (auto CI = X->capture_init_begin(); CI != X->capture_init_end(); ++CI, ++FI) {
        r += (first ? "" : ", "); first = false;
        r += (FI->getType()->isReferenceType() ? "&" : "") + ex(*CI);
      }
      if (first) r += "0";
      return r + "})";
    }
    if (auto* X = dyn_cast<CallExpr>(E)) return call(X);
    throw Unsupported{std::string("expr ") + E->getStmtClassName()};
  }
  std::string declareAbstract(QualType T) { std::string s = declare(T, ""); while (!s.empty() && s.back()==' ') s.pop_back(); return s; }

  std::string basePath(const CastExpr* X, const std::string& lv) {
    // lv is an lvalue of the derived class; returns lvalue of base following path
    std::string r = lv;
    const CXXRecordDecl* cur = X->getSubExpr()->getType()->isPointerType()
        ? X->getSubExpr()->getType()->getPointeeCXXRecordDecl() : X->getSubExpr()->getType()->getAsCXXRecordDecl();
    for (auto* BS : X->path()) {
      auto* BD = BS->getType()->getAsCXXRecordDecl()->getDefinition();
      cur = cur->getDefinition();
      int bi = 0, found = -1;
      for (auto& B : cur->bases()) { if (B.getType()->getAsCXXRecordDecl()->getDefinition() == BD) found = bi; bi++; }
      if (found < 0) throw Unsupported{"base path"};
      r = "(" + r + ").__b" + std::to_string(found);
      cur = BD;
    }
    return r;
  }
  std::string lowerCast(const CastExpr* X) {
    std::string s = ex(X->getSubExpr());
    switch (X->getCastKind()) {
      case CK_LValueToRValue: case CK_NoOp: case CK_FunctionToPointerDecay: case CK_ConstructorConversion: case CK_UserDefinedConversion:
        return s;
      case CK_ArrayToPointerDecay: return "(&(" + s + ")[0])";
      case CK_NullToPointer: return "((void*)0)";
      case CK_IntegralCast: case CK_IntegralToBoolean: case CK_BitCast: case CK_PointerToIntegral: case CK_IntegralToPointer:
        return "((" + declareAbstract(X->getType()) + ")" + s + ")";
      case CK_PointerToBoolean: return "(" + s + " != 0)";
      case CK_DerivedToBase: case CK_UncheckedDerivedToBase:
        if (X->getSubExpr()->getType()->isPointerType()) return "(&" + basePath(X, "(*" + s + ")") + ")";
        return basePath(X, s);
      case CK_BaseToDerived: {
        // container_of along the path (path lists bases from derived to base)
        QualType DT = X->getType()->isPointerType() ? X->getType()->getPointeeType() : X->getType();
        auto* DR = DT->getAsCXXRecordDecl()->getDefinition();
        std::string member; const CXXRecordDecl* cur = DR;
        for (auto* BS : X->path()) { auto* BD = BS->getType()->getAsCXXRecordDecl()->getDefinition(); int bi = 0, found = -1; for (auto& B : cur->bases()) { if (B.getType()->getAsCXXRecordDecl()->getDefinition()==BD) found = bi; bi++; } if (found < 0) throw Unsupported{"b2d path"}; member += (member.empty() ? "" : ".") + std::string("__b") + std::to_string(found); cur = BD; }
        needRecord(DR);
        std::string dt = "struct " + rec(DR);
        bool isPtr = X->getSubExpr()->getType()->isPointerType();
        std::string p = isPtr ? s : "(&" + s + ")";
        std::string r = "((" + dt + "*)((char*)(" + p + ") - __builtin_offsetof(" + dt + ", " + member + ")))";
        return isPtr ? r : "(*" + r + ")";
      }
      case CK_ToVoid: return "((void)" + s + ")";
      default: throw Unsupported{std::string("cast kind ") + X->getCastKindName()};
    }
  }
  // call constructor CD on object at pointer-expression `ptr` with the arguments of CE (or forwarded params)
  std::string ctorCall(const CXXConstructorDecl* CD, const std::string& ptr, const CXXConstructExpr* CE, bool asBase = false) {
    if (!asBase && CD->getParent()->getDefinition()->isPolymorphic() && !isOpaque(CD->getParent()->getDefinition())) clsId(CD->getParent());
    if (CD->isTrivial() && CE->getNumArgs() == 0) return "(void)0";
    if (CD->isCopyOrMoveConstructor() && CD->isTrivial()) return "(*(" + ptr + ") = " + ex(CE->getArg(0)) + ")";
    if (stdOpaqueFn(CD)) {
      if (!isOpaque(CD->getParent())) throw Unsupported{"constructor of a transparent std record is not lowered: " + CD->getQualifiedNameAsString()};
      // default construction of a standard container = the empty container (every container model starts empty); a sized
      // std::vector(n) is not dropped: the model is told the initial size (n value-initialised elements)
      bool defaulted = true;
      for (unsigned i = 0; i < CE->getNumArgs(); ++i) if (!isa<CXXDefaultArgExpr>(CE->getArg(i))) defaulted = false;
      std::string q = CD->getQualifiedNameAsString();
      if (!defaulted && q.rfind("std::vector<", 0) == 0 && CE->getNumArgs() >= 1 && CE->getArg(0)->getType()->isIntegerType())
        return "__ipr_vec_init((void*)(" + ptr + "), " + ex(CE->getArg(0)) + ") /* std::vector(n): n value-initialised elements */";
      if (!defaulted && !CD->isCopyOrMoveConstructor() && CE->getNumArgs() == 1 && q.find("iterator") != std::string::npos && CE->getArg(0)->getType()->getAsCXXRecordDecl() && isOpaque(CE->getArg(0)->getType()->getAsCXXRecordDecl()))
        return "memcpy((void*)(" + ptr + "), (void*)&(" + ex(CE->getArg(0)) + "), sizeof(*(" + ptr + "))) /* iterator -> const_iterator conversion: same designated element */";
      if (!defaulted && !(CD->isCopyOrMoveConstructor())) throw Unsupported{"constructor of an opaque std record with arguments: " + q};
      if (CD->isCopyOrMoveConstructor()) return "__ipr_container_copy((void*)(" + ptr + "), (void*)&(" + ex(CE->getArg(0)) + "), \"" + jsonEsc(q) + "\")";
      return "(void)0 /* default construction of an opaque std record: empty container (" + q + ") */";
    }
    std::string s = fn(CD) + "(" + ptr;
    for (unsigned i = 0; i < CE->getNumArgs(); ++i) s += ", " + arg(CE->getArg(i), CD->getParamDecl(i)->getType());
    return s + ")";
  }
  std::set<const FunctionDecl*> transparentStd; std::vector<std::string> stdJson;
  // deepest std function whose body directly contains the placement-new of T
  const FunctionDecl* findPlacementFn(const FunctionDecl* FD, const CXXRecordDecl* T, int depth = 0) {
    if (!FD || depth > 12) return nullptr;
    const FunctionDecl* Def = FD->getDefinition(); if (!Def || !Def->hasBody()) return nullptr;
    struct F : RecursiveASTVisitor<F> { Lower& L; const CXXRecordDecl* T; int depth; const FunctionDecl* found = nullptr; bool direct = false;
      F(Lower& l, const CXXRecordDecl* t, int d) : L(l), T(t), depth(d) {}
      bool VisitCXXNewExpr(CXXNewExpr* N) { if (auto* RD = N->getAllocatedType()->getAsCXXRecordDecl()) if (RD->getDefinition() == T->getDefinition() && N->getConstructExpr()) direct = true; return true; }
      bool VisitCallExpr(CallExpr* CE) { if (!found) if (auto* D = CE->getDirectCallee()) if (auto* r = L.findPlacementFn(D, T, depth + 1)) found = r; return true; }
    } f(*this, T, depth);
    f.TraverseStmt(Def->getBody());
    if (f.direct) return Def;
    return f.found;
  }
  std::string arg(const Expr* A, QualType paramT) {
    if (paramT->isReferenceType()) return "(&" + ex(A) + ")";
    return ex(A);
  }
  std::string call(const CallExpr* X) {
    if (isa<CXXPseudoDestructorExpr>(X->getCallee()->IgnoreParens())) return "((void)0) /* pseudo-destructor call on a scalar */";
    const FunctionDecl* FD = X->getDirectCallee();
    if (!FD) throw Unsupported{"indirect call"};
    std::vector<std::string> args;
    unsigned firstParamArg = 0;
    if (auto* MC_ = dyn_cast<CXXMemberCallExpr>(X)) {
      const Expr* Obj = MC_->getImplicitObjectArgument();
      const CXXMethodDecl* MD = MC_->getMethodDecl();
      std::string o = ex(Obj);
      std::string self = Obj->getType()->isPointerType() ? o : "(&" + o + ")";
      // adjust self to the method's class if object is derived
      const CXXRecordDecl* OC = Obj->getType()->isPointerType() ? Obj->getType()->getPointeeCXXRecordDecl() : Obj->getType()->getAsCXXRecordDecl();
      if (MD->isVirtual() && !isStd(MD)) {
        auto* ME = dyn_cast<MemberExpr>(MC_->getCallee()->IgnoreParens());
        const CXXMethodDecl* Dev = (ME && ME->hasQualifier()) ? MD : const_cast<CXXMethodDecl*>(MD)->getDevirtualizedMethod(Obj, false);
        if (!Dev) Dev = thisClassFinal(MD, Obj);
        if (!Dev) {
          if (OC->getDefinition() != MD->getParent()->getDefinition()) self = upcast(self, OC, MD->getParent());
          return virtcall(MD, self, X, 0);
        }
        MD = Dev; FD = Dev;
        if (!OC->getDefinition()->isDerivedFrom(MD->getParent()->getDefinition()) && OC->getDefinition() != MD->getParent()->getDefinition()) {
          // the final overrider lives in a class DERIVED from the static type of the object expression (clang proved the dynamic
          // type): container_of along the unique base path from that class down to the static type
          const CXXRecordDecl* DR = MD->getParent()->getDefinition();
          CXXBasePaths Paths(true, true, false);
          if (!DR->isDerivedFrom(OC->getDefinition(), Paths) || Paths.begin() == Paths.end()) throw Unsupported{"devirtualised to an unrelated class"};
          std::string member; const CXXRecordDecl* cur = DR;
          for (auto& El : Paths.front()) {
            auto* BD = El.Base->getType()->getAsCXXRecordDecl()->getDefinition();
            int bi = 0, found = -1;
            for (auto& B : cur->bases()) { if (B.getType()->getAsCXXRecordDecl()->getDefinition() == BD) found = bi; bi++; }
            if (found < 0) throw Unsupported{"devirtualised downcast path"};
            member += (member.empty() ? "" : ".") + std::string("__b") + std::to_string(found); cur = BD;
          }
          needRecord(DR);
          std::string dt = "struct " + rec(DR);
          self = "((" + dt + "*)((char*)(" + self + ") - __builtin_offsetof(" + dt + ", " + member + ")))";
          OC = DR;
        }
      }
      if (OC->getDefinition() != MD->getParent()->getDefinition()) self = upcast(self, OC, MD->getParent());
      if (stdOpaqueFn(MD)) return stdcall(MD, self, X, 0);
      args.push_back(self);
    } else if (auto* OC_ = dyn_cast<CXXOperatorCallExpr>(X)) {
      if (auto* MD0 = dyn_cast<CXXMethodDecl>(FD)) if ((MD0->isCopyAssignmentOperator() || MD0->isMoveAssignmentOperator()) && MD0->isTrivial())
        return "(" + ex(OC_->getArg(0)) + " = " + ex(OC_->getArg(1)) + ")";
      if (auto* MD = dyn_cast<CXXMethodDecl>(FD)) {
        std::string o = ex(OC_->getArg(0));
        std::string self = "(&" + o + ")";
        const CXXRecordDecl* OC = OC_->getArg(0)->getType()->getAsCXXRecordDecl();
        if (OC && OC->getDefinition() != MD->getParent()->getDefinition()) self = upcast(self, OC, MD->getParent());
        if (MD->isVirtual() && !isStd(MD)) {
          const CXXMethodDecl* Dev = const_cast<CXXMethodDecl*>(MD)->getDevirtualizedMethod(OC_->getArg(0), false);
          if (!Dev) return virtcall(MD, self, X, 1);
          if (Dev->getParent()->getDefinition() != MD->getParent()->getDefinition()) throw Unsupported{"devirtualised operator in another class"};
        }
        if (stdOpaqueFn(MD)) return stdcall(MD, self, X, 1);
        args.push_back(self);
        firstParamArg = 1;
      }
    }
    if (stdOpaqueFn(FD)) return stdcall(FD, "", X, firstParamArg);
    for (unsigned i = firstParamArg; i < X->getNumArgs(); ++i)
      args.push_back(arg(X->getArg(i), FD->getParamDecl(i - firstParamArg)->getType()));
    std::string s = fn(FD) + "(";
    if (curFn) calls[fnName[curFn]].insert(fnName[FD->getDefinition() ? FD->getDefinition() : FD]);
    for (size_t i = 0; i < args.size(); ++i) s += (i ? ", " : "") + args[i];
    s += ")";
    if (FD->getReturnType()->isReferenceType()) s = "(*" + s + ")";
    return s;
  }
  // a virtual call on `this` inside a constructor body is not devirtualised; a call on `this` to a method
  // whose final overrider in the *current* class is marked final (or the class is final) is, by clang.  Nothing more here.
  const CXXMethodDecl* thisClassFinal(const CXXMethodDecl*, const Expr*) { return nullptr; }
  // ---- dynamic classes: every polymorphic root subobject carries __cls; constructors and constant objects set it
  bool isPolyRoot(const CXXRecordDecl* RD) {
    RD = RD->getDefinition(); if (!RD || !RD->isPolymorphic() || isOpaque(RD)) return false;
    for (auto& B : RD->bases()) if (auto* BD = B.getType()->getAsCXXRecordDecl()) if (BD->getDefinition() && BD->getDefinition()->isPolymorphic()) return false;
    return true;
  }
  // member paths (".__b0.__b1") from D to each polymorphic-root subobject, DFS order
  void polyRootPaths(const CXXRecordDecl* D, const std::string& pre, std::vector<std::pair<std::string, const CXXRecordDecl*>>& out) {
    D = D->getDefinition(); if (!D || !D->isPolymorphic()) return;
    if (isPolyRoot(D)) { out.push_back({pre, D}); return; }
    int bi = 0; for (auto& B : D->bases()) { if (auto* BD = B.getType()->getAsCXXRecordDecl()) polyRootPaths(BD, pre + ".__b" + std::to_string(bi), out); bi++; }
  }
  // member paths from D to every subobject of class B
  void subobjectPaths(const CXXRecordDecl* D, const CXXRecordDecl* B, const std::string& pre, std::vector<std::string>& out) {
    D = D->getDefinition(); if (!D) return;
    if (D == B->getDefinition()) { out.push_back(pre); return; }
    int bi = 0; for (auto& X : D->bases()) { if (auto* BD = X.getType()->getAsCXXRecordDecl()) subobjectPaths(BD, B, pre + ".__b" + std::to_string(bi), out); bi++; }
  }
  std::vector<const CXXRecordDecl*> constructed; std::map<const CXXRecordDecl*, int> clsIds;
  int clsId(const CXXRecordDecl* D) {
    D = D->getDefinition();
    auto it = clsIds.find(D); if (it != clsIds.end()) return it->second;
    int id = (int)constructed.size() + 1; constructed.push_back(D); clsIds[D] = id; needRecord(D);
    return id;
  }
  std::string setClsStmts(const CXXRecordDecl* D, const std::string& objLv, const std::string& I) {
    if (!D->getDefinition()->isPolymorphic()) return "";
    std::vector<std::pair<std::string, const CXXRecordDecl*>> roots; polyRootPaths(D, "", roots);
    if (roots.size() >= 32) throw Unsupported{"more than 31 polymorphic root subobjects"};
    std::string r; int id = clsId(D); int k = 0;
    for (auto& rp : roots) r += I + "(" + objLv + ")" + rp.first + ".__cls = " + std::to_string((id << 5) | k++) + "; /* " + D->getQualifiedNameAsString() + " */\n";
    return r;
  }
  // constructors of classes that are only ever base subobjects in this unit do not need a class id of their own
  std::map<std::string, const CXXRecordDecl*> clsPlaceholders;
  std::string setClsPlaceholder(const CXXRecordDecl* D) { D = D->getDefinition(); if (!D->isPolymorphic()) return ""; std::string k = "/*SETCLS:" + rec(D) + "*/\n"; clsPlaceholders[k] = D; return k; }
  std::string resolveClsPlaceholders(std::string text) {
    for (auto& kv : clsPlaceholders) {
      std::string repl = clsIds.count(kv.second) ? setClsStmts(kv.second, "*self", "  ") : "";
      size_t pos = 0; while ((pos = text.find(kv.first, pos)) != std::string::npos) { text.replace(pos, kv.first.size(), repl); pos += repl.size(); }
    }
    return text;
  }
  struct VStub { const CXXMethodDecl* MD; std::string name, proto, ret; std::vector<std::string> argNames; size_t doneFor = 0; };
  std::vector<VStub> vstubs; std::string dispatchers; std::vector<std::string> dispatchJson;
  std::string adjustUp(const std::string& ptr, const CXXRecordDecl* from, const CXXRecordDecl* to) {
    if (from->getDefinition() == to->getDefinition()) return ptr;
    std::vector<std::string> ps; subobjectPaths(from, to, "", ps);
    if (ps.empty()) throw Unsupported{"dispatch: no path " + from->getQualifiedNameAsString() + " -> " + to->getQualifiedNameAsString()};
    return "(&(*" + ptr + ")" + ps.front() + ")";
  }
  // (re)generate all dispatchers for the classes constructed so far; returns true when new functions were requested
  void genDispatch() {
    dispatchers.clear(); dispatchJson.clear();
    for (size_t si = 0; si < vstubs.size(); ++si) {
      VStub V = vstubs[si];
      const CXXRecordDecl* B = V.MD->getParent()->getDefinition();
      std::vector<std::pair<std::string, const CXXRecordDecl*>> broots; polyRootPaths(B, "", broots);
      if (broots.empty()) throw Unsupported{"virtual method of a class without polymorphic root"};
      std::string rb = broots.front().first;
      std::string args; for (auto& a : V.argNames) args += ", " + a;
      std::string d = V.ret + " " + V.name + "(" + V.proto + ")\n{\n  switch ((*self)" + rb + ".__cls) {\n";
      std::string cases;
      for (size_t ci = 0; ci < constructed.size(); ++ci) {
        const CXXRecordDecl* D = constructed[ci];
        if (D != B && !D->isDerivedFrom(B)) continue;
        std::vector<std::string> bpaths; subobjectPaths(D, B, "", bpaths);
        std::vector<std::pair<std::string, const CXXRecordDecl*>> droots; polyRootPaths(D, "", droots);
        const CXXMethodDecl* F = const_cast<CXXMethodDecl*>(V.MD)->getCorrespondingMethodInClass(D, true);
        if (!F || F->isPure()) continue;
        if (auto* FDf = dyn_cast_or_null<CXXMethodDecl>(F->getDefinition())) F = FDf;
        for (auto& pb : bpaths) {
          std::string full = pb + rb; int k = -1;
          for (size_t i = 0; i < droots.size(); ++i) if (droots[i].first == full) k = (int)i;
          if (k < 0) throw Unsupported{"dispatch: root subobject not found"};
          std::string dt = "struct " + rec(D);
          std::string dptr = "((" + dt + "*)((char*)&(*self)" + rb + " - __builtin_offsetof(" + dt + ", " + full.substr(1) + ")))";
          std::string fself = adjustUp(dptr, D, F->getParent());
          std::string call = fn(F) + "(" + fself + args + ")";
          QualType RF = F->getReturnType(), RM = V.MD->getReturnType();
          if ((RF->isReferenceType() || RF->isPointerType()) && RF->getPointeeType()->getAsCXXRecordDecl() && RM->getPointeeType()->getAsCXXRecordDecl()
              && RF->getPointeeType()->getAsCXXRecordDecl()->getDefinition() != RM->getPointeeType()->getAsCXXRecordDecl()->getDefinition()) {
            std::string t = "__r" + std::to_string(tmpId++);
            call = "({ " + declareAbstract(RF) + " " + t + " = " + call + "; " + t + " ? " + adjustUp(t, RF->getPointeeType()->getAsCXXRecordDecl(), RM->getPointeeType()->getAsCXXRecordDecl()) + " : (" + V.ret + ")0; })";
          }
          cases += "    case " + std::to_string((clsIds[D] << 5) | k) + ": /* " + D->getQualifiedNameAsString() + " -> " + F->getQualifiedNameAsString() + " */ " + (V.MD->getReturnType()->isVoidType() ? call + "; return;" : "return " + call + ";") + "\n";
          dispatchJson.push_back("{\"stub\": \"" + V.name + "\", \"class\": \"" + jsonEsc(D->getQualifiedNameAsString()) + "\", \"final_overrider\": \"" + jsonEsc(F->getQualifiedNameAsString()) + "\", \"fn\": \"" + fnName[F->getDefinition() ? F->getDefinition() : F] + "\"}");
        }
      }
      d += cases + "    default: " + (V.MD->getReturnType()->isVoidType() ? "" : "return ") + V.name + "__ext(self" + args + ");" + (V.MD->getReturnType()->isVoidType() ? " return;" : "") + "\n  }\n}\n";
      dispatchers += "/* dynamic dispatch of " + V.MD->getQualifiedNameAsString() + " over the classes constructed in this unit; other objects go to the harness's model */\n" + V.ret + " " + V.name + "__ext(" + V.proto + ");\n#ifndef IPR_SKIP_" + V.name + "\n" + d + "#endif\n\n";
    }
  }
  std::map<std::string, std::string> virtStubs; // name -> json
  void requestDispatcher(const CXXMethodDecl* MD) {
    std::string n = "__virt_" + mangle(MD);
    if (virtStubs.count(n)) return;
    std::string proto = declare(MD->getThisType(), "self"); VStub V; V.MD = MD; V.name = n;
    unsigned i = 0; for (auto* P : MD->parameters()) { proto += ", " + declare(P->getType(), "a" + std::to_string(i)); V.argNames.push_back("a" + std::to_string(i)); ++i; }
    V.proto = proto; V.ret = declareAbstract(MD->getReturnType()); vstubs.push_back(V);
    protos += "/* virtual call stub (requested by the harness): " + MD->getQualifiedNameAsString() + " */ " + V.ret + " " + n + "(" + proto + ");\n";
    virtStubs[n] = "{\"name\": \"" + n + "\", \"method\": \"" + jsonEsc(MD->getQualifiedNameAsString()) + "\", \"mangled\": \"" + mangle(MD) + "\", \"ret\": \"" + jsonEsc(V.ret) + "\", \"params\": \"" + jsonEsc(proto) + "\"}";
  }
  std::string virtcall(const CXXMethodDecl* MD, const std::string& self, const CallExpr* X, unsigned first) {
    std::string n = "__virt_" + mangle(MD);
    std::string proto = declare(MD->getThisType(), "self"), callArgs = self;
    for (unsigned i = first; i < X->getNumArgs(); ++i) {
      QualType PT = MD->getParamDecl(i - first)->getType();
      proto += ", " + declare(PT, "a" + std::to_string(i));
      callArgs += ", " + arg(X->getArg(i), PT);
    }
    if (!virtStubs.count(n)) {
      std::string ret = declareAbstract(MD->getReturnType());
      { VStub V; V.MD = MD; V.name = n; V.proto = proto; V.ret = ret; for (unsigned i = first; i < X->getNumArgs(); ++i) V.argNames.push_back("a" + std::to_string(i)); vstubs.push_back(V); }
      protos += "/* virtual call stub: " + MD->getQualifiedNameAsString() + " */ " + ret + " " + n + "(" + proto + ");\n";
      virtStubs[n] = "{\"name\": \"" + n + "\", \"method\": \"" + jsonEsc(MD->getQualifiedNameAsString()) + "\", \"mangled\": \"" + mangle(MD) + "\", \"ret\": \"" + jsonEsc(ret) + "\", \"params\": \"" + jsonEsc(proto) + "\"}";
    }
    if (curFn) calls[fnName[curFn]].insert(n);
    std::string c = n + "(" + callArgs + ")";
    return MD->getReturnType()->isReferenceType() ? "(*" + c + ")" : c;
  }
  static std::string jsonEsc(const std::string& s) { std::string r; for (char ch : s) { if (ch == '"' || ch == '\\') { r += '\\'; r += ch; } else if (ch == '\n') r += "\\n"; else r += ch; } return r; }
  std::map<std::string, std::set<std::string>> calls;
  bool stdOpaqueFn(const FunctionDecl* FD) {
    if (!isStd(FD)) return false;
    if (transparentStd.count(FD->getDefinition() ? FD->getDefinition() : FD)) return false;
    std::string q = FD->getQualifiedNameAsString();
    for (auto& p : TransparentFn) if (q.rfind(p, 0) == 0 && FD->getDefinition() && FD->getDefinition()->hasBody()) return false;
    return true;
  }
  std::string upcast(const std::string& ptr, const CXXRecordDecl* from, const CXXRecordDecl* to) {
    CXXBasePaths Paths(true, true, false);
    if (!from->getDefinition()->isDerivedFrom(to->getDefinition(), Paths)) throw Unsupported{"upcast: not derived"};
    std::string r = "(*" + ptr + ")";
    const CXXRecordDecl* cur = from->getDefinition();
    for (auto& El : Paths.front()) {
      auto* BD = El.Base->getType()->getAsCXXRecordDecl()->getDefinition();
      int bi = 0, found = -1;
      for (auto& B : cur->bases()) { if (B.getType()->getAsCXXRecordDecl()->getDefinition() == BD) found = bi; bi++; }
      r = "(" + r + ").__b" + std::to_string(found);
      cur = BD;
    }
    return "(&" + r + ")";
  }
  std::string stdcall(const FunctionDecl* FD, const std::string& self, const CallExpr* X, unsigned first) {
    std::string q = FD->getQualifiedNameAsString();
    bool isAlloc = q.rfind("std::allocator<",0)==0 || q.rfind("std::__new_allocator<",0)==0;
    if (isAlloc && FD->getNameAsString()=="allocate") {
      auto* MD = llvm::cast<CXXMethodDecl>(FD); (void)MD;
      QualType RT = FD->getReturnType();
      return "((" + declareAbstract(RT) + ")__ipr_alloc(sizeof(*((" + declareAbstract(RT) + ")0)) * " + ex(X->getArg(first)) + "))";
    }
    if (isAlloc && FD->getNameAsString()=="deallocate") return "__ipr_free(" + ex(X->getArg(first)) + ")";
    if (FD->getNameAsString()=="forward" || FD->getNameAsString()=="move") return ex(X->getArg(first));
    if ((q == "std::begin" || q == "std::end" || q == "std::cbegin" || q == "std::cend") && FD->getNumParams() == 1) {
      QualType AT = FD->getParamDecl(0)->getType().getNonReferenceType();
      if (auto* CAT = C.getAsConstantArrayType(AT))
        return "(&(" + ex(X->getArg(first)) + ")[" + ((q == "std::begin" || q == "std::cbegin") ? std::string("0") : std::to_string(CAT->getSize().getZExtValue())) + "])";
    }
    bool dqEmplace = q.rfind("std::deque<",0)==0 && FD->getNameAsString()=="emplace_back";
    if ((q.rfind("std::forward_list<",0)==0 && FD->getNameAsString()=="emplace_front") || dqEmplace) {
      auto* MD = llvm::cast<CXXMethodDecl>(FD);
      auto* Spec = dyn_cast<ClassTemplateSpecializationDecl>(MD->getParent());
      const CXXRecordDecl* T = Spec->getTemplateArgs()[0].getAsType()->getAsCXXRecordDecl();
      const FunctionDecl* CF = findPlacementFn(FD, T);
      if (!CF) throw Unsupported{"emplace_front/emplace_back: construct function not found"};
      transparentStd.insert(CF);
      std::string pt = declareAbstract(C.getPointerType(QualType(T->getTypeForDecl(),0)));
      std::string t = "__n" + std::to_string(tmpId++);
      std::string r = "({ " + pt + " " + t + " = (" + pt + ")__ipr_alloc(sizeof(*" + t + ")); " + fn(CF) + "(" + t;
      for (unsigned i = first; i < X->getNumArgs(); ++i) r += ", " + arg(X->getArg(i), CF->getParamDecl(i-first+1)->getType());
      r += std::string("); ") + (dqEmplace ? "__ipr_dq_push" : "__ipr_fl_push") + "((void*)" + self + ", " + t + "); " + t + "; })";   // deque: elements individually allocated, references stable
      return FD->getReturnType()->isReferenceType() ? "(*" + r + ")" : r;
    }
    if (q.rfind("std::forward_list<",0)==0 && FD->getNameAsString()=="emplace_after") {
      // emplace_after(pos, args...): storage from the allocator, the object constructed in place by the constructor clang selected,
      // then linked after pos; iterators are modelled as the address of the element they designate (harness/flmodel.h)
      auto* MD = llvm::cast<CXXMethodDecl>(FD);
      auto* Spec = dyn_cast<ClassTemplateSpecializationDecl>(MD->getParent());
      const CXXRecordDecl* T = Spec->getTemplateArgs()[0].getAsType()->getAsCXXRecordDecl();
      const FunctionDecl* CF = findPlacementFn(FD, T);
      if (!CF) throw Unsupported{"emplace_after: construct function not found"};
      transparentStd.insert(CF);
      std::string pt = declareAbstract(C.getPointerType(QualType(T->getTypeForDecl(),0)));
      std::string it = declareAbstract(FD->getReturnType()), pit = declareAbstract(FD->getParamDecl(0)->getType());
      std::string t = "__n" + std::to_string(tmpId++), p = "__p" + std::to_string(tmpId++), r0 = "__r" + std::to_string(tmpId++);
      std::string r = "({ " + pit + " " + p + " = " + ex(X->getArg(first)) + "; " + pt + " " + t + " = (" + pt + ")__ipr_alloc(sizeof(*" + t + ")); " + fn(CF) + "(" + t;
      for (unsigned i = first + 1; i < X->getNumArgs(); ++i) r += ", " + arg(X->getArg(i), CF->getParamDecl(i-first)->getType());
      r += "); " + it + " " + r0 + "; __builtin_memset(&" + r0 + ", 0, sizeof " + r0 + "); *(void**)&" + r0 + " = __ipr_fl_insert_after((void*)" + self + ", *(void**)&" + p + ", " + t + "); " + r0 + "; })";
      return r;
    }
    if (q.rfind("std::forward_list<",0)==0 && FD->getNameAsString()=="front") {
      return "(*(" + declareAbstract(C.getPointerType(FD->getReturnType().getNonReferenceType())) + ")__ipr_fl_front((void*)" + self + "))";
    }
    // generic: external stub with the same parameter list (contracts assumed elsewhere)
    {
      std::string n = "__std_" + mangle(FD);
      std::string proto, callArgs;
      if (!self.empty()) { proto += "void *self"; callArgs += "(void*)" + self; }
      unsigned np = FD->getNumParams();
      for (unsigned i = first; i < X->getNumArgs() && (i - first) < np; ++i) {
        QualType PT = FD->getParamDecl(i - first)->getType();
        std::string d;
        try { d = declare(PT, "a" + std::to_string(i)); } catch (Unsupported&) { d = "void *a" + std::to_string(i); }
        proto += (proto.empty() ? "" : ", ") + d;
        callArgs += (callArgs.empty() ? "" : ", ") + arg(X->getArg(i), PT);
      }
      std::string ret;
      try { ret = isa<CXXConstructorDecl>(FD) ? "void" : declareAbstract(FD->getReturnType()); } catch (Unsupported&) { ret = "void *"; }
      if (!stdStubs.count(n)) { stdStubs.insert(n); protos += "/* std stub: " + q + " */ " + ret + " " + n + "(" + (proto.empty() ? "void" : proto) + ");\n"; stdStubNames.insert(q);
        stdJson.push_back("{\"name\": \"" + n + "\", \"qualified\": \"" + jsonEsc(q) + "\", \"ret\": \"" + jsonEsc(ret) + "\", \"params\": \"" + jsonEsc(proto) + "\", \"type\": \"" + jsonEsc(FD->getType().getAsString()) + "\"}"); }
      if (curFn) calls[fnName[curFn]].insert(n);
      std::string c = n + "(" + callArgs + ")";
      return FD->getReturnType()->isReferenceType() ? "(*" + c + ")" : c;
    }
  }

  // statements initialising the lvalue `lv` of type T from Init (member initialisers, local variables)
  std::string initLv(const std::string& lv, QualType T, const Expr* Init, const std::string& I) {
    T = T.getCanonicalType();
    const Expr* In = Init;
    while (true) { if (auto* W = dyn_cast<ExprWithCleanups>(In)) In = W->getSubExpr(); else if (auto* B = dyn_cast<CXXBindTemporaryExpr>(In)) In = B->getSubExpr(); else break; }
    if (T->isReferenceType()) return I + lv + " = &" + ex(Init) + ";\n";
    if (auto* AT = C.getAsConstantArrayType(T)) {
      unsigned n = AT->getSize().getZExtValue();
      if (auto* IL = dyn_cast<InitListExpr>(In)) {
        std::string r;
        for (unsigned i = 0; i < n; ++i) {
          const Expr* e = i < IL->getNumInits() ? IL->getInit(i) : IL->getArrayFiller();
          if (!e) { r += I + "__builtin_memset(&" + lv + "[" + std::to_string(i) + "], 0, sizeof(" + lv + "[0]));\n"; continue; }
          r += initLv(lv + "[" + std::to_string(i) + "]", AT->getElementType(), e, I);
        }
        return r;
      }
      if (isa<ImplicitValueInitExpr>(In)) return I + "__builtin_memset(&" + lv + ", 0, sizeof(" + lv + "));\n";
      if (auto* SL = dyn_cast<clang::StringLiteral>(In->IgnoreParens())) return I + "__builtin_memcpy(&" + lv + ", " + strLit(SL) + ", " + std::to_string(std::min<unsigned>(n, SL->getByteLength() + 1)) + ");\n";
      throw Unsupported{std::string("array initialiser ") + In->getStmtClassName()};
    }
    if (T->isRecordType()) {
      auto* RD = T->getAsCXXRecordDecl()->getDefinition();
      if (auto* CE = dyn_cast<CXXConstructExpr>(In)) {
        if (!CE->isElidable() || true) {
          auto* CD = CE->getConstructor();
          if (CD->isCopyOrMoveConstructor() && (CD->isTrivial() || isStd(CD))) return I + lv + " = " + ex(CE->getArg(0)) + ";\n";
          if (isStd(CD) && isOpaque(RD)) {
            if (CE->getNumArgs() == 0 || CD->isDefaultConstructor()) return I + "__builtin_memset(&" + lv + ", 0, sizeof(" + lv + "));\n";
            return I + lv + " = " + ex(In) + ";\n";
          }
          if (CD->isTrivial() && CE->getNumArgs() == 0) return CE->requiresZeroInitialization() ? I + "__builtin_memset(&" + lv + ", 0, sizeof(" + lv + "));\n" : "";
          std::string z = CE->requiresZeroInitialization() ? I + "__builtin_memset(&" + lv + ", 0, sizeof(" + lv + "));\n" : "";
          return z + I + ctorCall(CD, "(&" + lv + ")", CE) + ";\n";
        }
      }
      if (auto* IL = dyn_cast<InitListExpr>(In)) if (!IL->isTransparent() && RD->isAggregate() && !isOpaque(RD)) {
        std::string r; unsigned k = 0; int bi = 0;
        for (auto& B : RD->bases()) { if (k < IL->getNumInits()) r += initLv(lv + ".__b" + std::to_string(bi), B.getType(), IL->getInit(k), I); ++k; ++bi; }
        for (auto* F : RD->fields()) { if (F->isUnnamedBitfield()) continue; if (k < IL->getNumInits()) r += initLv(lv + "." + fieldName(F), F->getType(), IL->getInit(k), I); ++k; }
        return r;
      }
      if (isa<ImplicitValueInitExpr>(In)) return I + "__builtin_memset(&" + lv + ", 0, sizeof(" + lv + "));\n";
    }
    return I + lv + " = " + ex(Init) + ";\n";
  }
  // ---- statements
  std::string st(const Stmt* S, int ind) {
    if (!Tolerant) return stImpl(S, ind);
    try { return stImpl(S, ind); } catch (Unsupported& u) { UnsupportedLog[u.what].insert(curFn ? curFn->getQualifiedNameAsString() : "?"); return "UNSUPPORTED;\n"; }
  }
  std::string stImpl(const Stmt* S, int ind) {
    std::string I(ind * 2, ' ');
    if (!S) return I + ";\n";
    if (auto* X = dyn_cast<CompoundStmt>(S)) {
      std::string r = I + "{\n";
      for (auto* c : X->body()) r += st(c, ind + 1);
      return r + I + "}\n";
    }
    if (auto* X = dyn_cast<DeclStmt>(S)) {
      std::string r;
      for (auto* D : X->decls()) {
        auto* VD = dyn_cast<VarDecl>(D);
        if (!VD) { if (isa<TypedefNameDecl>(D) || isa<UsingDecl>(D) || isa<CXXRecordDecl>(D)) continue; throw Unsupported{"decl kind"}; }
        if (VD->isStaticLocal()) { global(VD); continue; }   /* becomes a C global; listed in the JSON index as (mutable) static state */
        std::string d = declare(VD->getType(), vn(VD));
        QualType VT = VD->getType().getCanonicalType();
        if (VD->hasInit() && (VT->isRecordType() || VT->isArrayType())) { r += I + d + ";\n" + initLv(vn(VD), VT, VD->getInit(), I); continue; }
        if (VD->hasInit()) {
          if (VD->getType()->isReferenceType()) d += " = &" + ex(VD->getInit());
          else d += " = " + ex(VD->getInit());
        }
        r += I + d + ";\n";
      }
      return r;
    }
    if (auto* X = dyn_cast<ReturnStmt>(S)) {
      if (inStep) { if (!X->getRetValue()) return I + "return 2;\n";
        return I + "{ *o_ret = " + (curFn->getReturnType()->isReferenceType() ? "&" : "") + ex(X->getRetValue()) + "; return 2; }\n"; }
      if (!X->getRetValue()) return I + "return;\n";
      if (curFn->getReturnType()->isReferenceType()) return I + "return &" + ex(X->getRetValue()) + ";\n";
      return I + "return " + ex(X->getRetValue()) + ";\n";
    }
    if (auto* X = dyn_cast<IfStmt>(S)) {
      if (X->isConstexpr()) { if (auto ND = X->getNondiscardedCase(C)) return *ND ? st(*ND, ind) : I + ";\n"; }
      if (X->isConsteval()) throw Unsupported{"if consteval"};
      std::string r, pre;
      std::string cond;
      if (X->getInit()) pre += st(X->getInit(), ind + 1);
      if (auto* CV = X->getConditionVariable()) {
        pre += std::string((ind+1)*2, ' ') + declare(CV->getType(), vn(CV)) + " = " + ex(CV->getInit()) + ";\n";
        cond = ex(X->getCond());        // the contextual conversion of the condition variable to bool (may be a user-defined operator bool)
      } else cond = ex(X->getCond());
      r = I + "{\n" + pre + std::string((ind+1)*2,' ') + "if (" + cond + ")\n" + st(X->getThen(), ind + 2);
      if (X->getElse()) r += std::string((ind+1)*2,' ') + "else\n" + st(X->getElse(), ind + 2);
      return r + I + "}\n";
    }
    if (auto* X = dyn_cast<WhileStmt>(S)) {
      if (X->getConditionVariable()) throw Unsupported{"while with condition variable"};
      maybeOutline(X, X->getCond(), X->getBody(), nullptr, loopOrd);
      std::string c = ex(X->getCond()), a = loopAnn(ind);
      if (inStep) ++stepNest; std::string bd = st(X->getBody(), ind + 1); if (inStep) --stepNest;
      return I + "while (" + c + ")\n" + a + bd;
    }
    if (auto* X = dyn_cast<DoStmt>(S)) { (void)X; throw Unsupported{"do-while"}; }
    if (auto* X = dyn_cast<ForStmt>(S)) {
      std::string r = I + "{\n";
      if (X->getConditionVariable()) throw Unsupported{"for with condition variable"};
      if (X->getInit()) r += st(X->getInit(), ind + 1);
      maybeOutline(X, X->getCond(), X->getBody(), X->getInc(), loopOrd);
      std::string hd = std::string((ind+1)*2,' ') + "for (; " + (X->getCond() ? ex(X->getCond()) : "1") + "; " + (X->getInc() ? exDiscard(X->getInc()) : "") + ")\n" + loopAnn(ind+1);
      if (inStep) ++stepNest; std::string bd = st(X->getBody(), ind + 2); if (inStep) --stepNest;
      return r + hd + bd + I + "}\n";
    }
    if (auto* X = dyn_cast<CXXForRangeStmt>(S)) {
      const Expr* R = X->getRangeInit()->IgnoreParenImpCasts();
      auto* AT = C.getAsConstantArrayType(R->getType());
      if (!AT) {
        // range-for over a container: clang's own desugaring (range, begin, end declarations; condition; increment; loop variable)
        if (!X->getRangeStmt() || !X->getBeginStmt() || !X->getEndStmt() || !X->getCond() || !X->getInc() || !X->getLoopVarStmt()) throw Unsupported{"range-for without desugared pieces"};
        std::string a = loopAnn(ind);
        std::string r = I + "{\n" + st(X->getRangeStmt(), ind + 1) + st(X->getBeginStmt(), ind + 1) + st(X->getEndStmt(), ind + 1);
        if (inStep) ++stepNest;
        std::string bd = st(X->getLoopVarStmt(), ind + 2) + st(X->getBody(), ind + 2);
        if (inStep) --stepNest;
        r += I + "  for (; " + ex(X->getCond()) + "; " + exDiscard(X->getInc()) + ")\n" + a + I + "  {\n" + bd + I + "  }\n" + I + "}\n";
        return r;
      }
      std::string idx = "__i" + std::to_string(tmpId++);
      auto* LV = X->getLoopVariable();
      std::string elem = "(" + ex(R) + ")[" + idx + "]";
      std::string d = declare(LV->getType(), vn(LV)) + " = " + (LV->getType()->isReferenceType() ? "&" : "") + elem + ";";
      std::string a = loopAnn(ind);
      if (inStep) ++stepNest; std::string bd = st(X->getBody(), ind + 1); if (inStep) --stepNest;
      return I + "for (unsigned long " + idx + " = 0; " + idx + " < " + std::to_string(AT->getSize().getZExtValue()) + "; ++" + idx + ")\n" + a + I + "{ " + d + "\n" + bd + I + "}\n";
    }
    if (auto* X = dyn_cast<SwitchStmt>(S)) { if (inStep) ++stepNest; std::string r = I + "switch (" + ex(X->getCond()) + ")\n" + st(X->getBody(), ind + 1); if (inStep) --stepNest; return r; }
    if (auto* X = dyn_cast<CaseStmt>(S)) return I + "case " + ex(X->getLHS()) + ":\n" + st(X->getSubStmt(), ind + 1);
    if (auto* X = dyn_cast<DefaultStmt>(S)) return I + "default:\n" + st(X->getSubStmt(), ind + 1);
    if (isa<NullStmt>(S)) return I + ";\n";
    if (isa<BreakStmt>(S)) return (inStep && stepNest == 0) ? I + "return 0;\n" : I + "break;\n";
    if (isa<ContinueStmt>(S)) return (inStep && stepNest == 0) ? I + "goto __step_continue;\n" : I + "continue;\n";
    if (isa<GotoStmt>(S) || isa<LabelStmt>(S) || isa<CXXTryStmt>(S) || isa<CoroutineBodyStmt>(S)) throw Unsupported{std::string("stmt ") + S->getStmtClassName()};
    if (auto* X = dyn_cast<Expr>(S)) return I + exDiscard(X) + ";\n";
    throw Unsupported{std::string("stmt ") + S->getStmtClassName()};
  }
  int loopOrd = 0;
  std::vector<std::string> loopMacros;
  std::string loopAnn(int ind) { std::string m = "LOOPC_" + fnName[curFn] + "_" + std::to_string(loopOrd++); loopMacros.push_back(m); return std::string(ind*2,' ') + m + "\n"; }
  // ---- loop outlining: step function for loop #k of function f
  //   int f__loop<k>_step(self, &param..., &local..., [&ret]) { if (!(cond)) return 0; body; inc; return 1; }   (2 = returned from inside)
  struct OutlineReq { std::string fn; int ord; bool done = false; };
  std::vector<OutlineReq> outlineReqs;
  std::string outlined;
  bool inStep = false; int stepNest = 0;
  void maybeOutline(const Stmt* Loop, const Expr* Cond, const Stmt* Body, const Expr* Inc, int ord) {
    if (inStep) return;
    for (auto& R : outlineReqs) if (!R.done && (R.fn == fnName[curFn] || R.fn == curFn->getQualifiedNameAsString()) && R.ord == ord) {
      R.done = true;
      // free variables: every local/param of the enclosing function referenced in the loop and declared outside it
      struct FV : RecursiveASTVisitor<FV> { std::vector<const VarDecl*> used; std::set<const VarDecl*> declared;
        bool VisitDeclRefExpr(DeclRefExpr* D) { if (auto* V = dyn_cast<VarDecl>(D->getDecl())) if (V->hasLocalStorage() && !std::count(used.begin(), used.end(), V)) used.push_back(V); return true; }
        bool VisitVarDecl(VarDecl* V) { declared.insert(V); return true; } } fv;
      (void)Loop;
      if (Cond) fv.TraverseStmt(const_cast<Expr*>(Cond));
      fv.TraverseStmt(const_cast<Stmt*>(Body));
      if (Inc) fv.TraverseStmt(const_cast<Expr*>(Inc));
      auto saved = varName; std::string params; bool hasSelf = false;
      if (auto* MD = dyn_cast<CXXMethodDecl>(curFn)) if (MD->isInstance()) { params = declare(MD->getThisType(), "self"); hasSelf = true; }
      (void)hasSelf;
      for (auto* V : fv.used) if (!fv.declared.count(V)) {
        std::string n = "o_" + V->getNameAsString();
        params += (params.empty() ? "" : ", ") + declare(C.getPointerType(V->getType()->isReferenceType() ? C.getPointerType(V->getType()->getPointeeType()) : V->getType()), n);
        varName[V] = "(*" + n + ")";
      }
      bool hasRet = !curFn->getReturnType()->isVoidType();
      if (hasRet) params += (params.empty() ? "" : ", ") + declare(C.getPointerType(curFn->getReturnType()->isReferenceType() ? C.getPointerType(curFn->getReturnType()->getPointeeType()) : curFn->getReturnType()), "o_ret");
      std::string name = fnName[curFn] + "__loop" + std::to_string(ord) + "_step";
      int savedOrd = loopOrd; auto savedMacros = loopMacros;
      inStep = true; stepNest = 0; loopOrd = ord + 1;
      std::string b = "int " + name + "(" + params + ")\n{\n";
      if (Cond) b += "  if (!(" + ex(Cond) + ")) return 0;\n";
      b += st(Body, 1);
      b += "  __step_continue: ;\n";
      if (Inc) b += "  " + exDiscard(Inc) + ";\n";
      b += "  return 1;\n}\n";
      inStep = false; loopOrd = savedOrd; loopMacros = savedMacros; varName = saved;
      outlined += "/* outlined body of loop " + std::to_string(ord) + " of " + curFn->getQualifiedNameAsString() + " */\n" + b + "\n";
    }
  }
  const FunctionDecl* curFn = nullptr; std::string lambdaThis;
  std::map<const VarDecl*, const FieldDecl*> captureField;

  std::string signature(const FunctionDecl* FD) {
    std::string name = fnName[FD];
    std::string params;
    if (auto* MD = dyn_cast<CXXMethodDecl>(FD)) if (MD->isInstance()) params += declare(MD->getThisType(), "self");
    int k = 0;
    for (auto* P : FD->parameters()) { if (!params.empty()) params += ", "; params += declare(P->getType(), "p" + std::to_string(k++)); }
    if (params.empty()) params = "void";
    std::string ret = (isa<CXXConstructorDecl>(FD) || isa<CXXDestructorDecl>(FD)) ? "void" : declareAbstract(FD->getReturnType());
    return ret + " " + name + "(" + params + ")";
  }
  void emitFunction(const FunctionDecl* FD) {
    curFn = FD; loopOrd = 0; varCount.clear(); captureField.clear(); lambdaThis.clear();
    if (auto* MD = dyn_cast<CXXMethodDecl>(FD)) if (MD->getParent()->isLambda()) {
      llvm::DenseMap<const VarDecl*, FieldDecl*> Caps; FieldDecl* ThisCap = nullptr;
      MD->getParent()->getCaptureFields(Caps, ThisCap);
      for (auto& kv : Caps) captureField[kv.first] = kv.second;
      if (ThisCap) lambdaThis = ThisCap->getType()->isPointerType() ? "self->" + fieldName(ThisCap) : "(&self->" + fieldName(ThisCap) + ")";
    }
    std::string name = fnName[FD];
    std::string params;
    if (auto* MD = dyn_cast<CXXMethodDecl>(FD)) if (MD->isInstance()) {
      QualType TT = MD->getThisType();
      params += declare(TT, "self");
    }
    for (auto* P : FD->parameters()) {
      if (!params.empty()) params += ", ";
      params += declare(P->getType(), vn(P));
    }
    if (params.empty()) params = "void";
    std::string ret = isa<CXXConstructorDecl>(FD) ? "void" : declareAbstract(FD->getReturnType());
    std::string sig = ret + " " + name + "(" + params + ")";
    protos += sig + ";\n";
    std::string b = "/* " + FD->getQualifiedNameAsString() + " : " + FD->getType().getAsString() + " @" + FD->getLocation().printToString(C.getSourceManager()) + " */\n";
    // positional aliases of the parameters for the contract text (contracts must not depend on what the source calls its parameters)
    { int k = 0; for (auto* P : FD->parameters()) b += "#define IPR_ARG" + std::to_string(k++) + " " + vn(P) + "\n"; }
    b += sig + "\nCONTRACT_" + name + "\n";
    { int k = 0; for (auto* P : FD->parameters()) { (void)P; b += "#undef IPR_ARG" + std::to_string(k++) + "\n"; } }
    if (auto* CD = dyn_cast<CXXConstructorDecl>(FD)) {
      b += "{\n";
      bool clsSet = false;
      for (auto* I : CD->inits()) {
        const Expr* Init = I->getInit()->IgnoreImplicit();
        if (!I->isBaseInitializer() && !clsSet) { b += setClsPlaceholder(CD->getParent()); clsSet = true; }
        if (I->isBaseInitializer()) {
          auto* BD = QualType(I->getBaseClass(),0)->getAsCXXRecordDecl()->getDefinition();
          int bi = 0, found = -1; for (auto& B : CD->getParent()->bases()) { if (B.getType()->getAsCXXRecordDecl()->getDefinition()==BD) found = bi; bi++; }
          std::string ptr = "(&self->__b" + std::to_string(found) + ")";
          if (auto* CE = dyn_cast<CXXConstructExpr>(Init)) b += "  " + ctorCall(CE->getConstructor(), ptr, CE, true) + ";\n";
          else if (auto* IE = dyn_cast<CXXInheritedCtorInitExpr>(Init)) {
            auto* BC = IE->getConstructor();
            std::string c = "  " + fn(BC) + "(" + ptr;
            for (auto* P : CD->parameters()) c += ", " + vn(P);
            b += c + ");\n";
          } else throw Unsupported{std::string("base init ") + Init->getStmtClassName()};
        } else {
          auto* F = I->getAnyMember();
          if (I->isIndirectMemberInitializer()) throw Unsupported{"indirect member initialiser"};
          std::string lv = "self->" + fieldName(F);
          const Expr* RawInit = I->getInit();
          if (auto* DI = dyn_cast<CXXDefaultInitExpr>(RawInit)) RawInit = DI->getExpr();
          b += initLv(lv, F->getType(), RawInit, "  ");
        }
      }
      if (!clsSet) b += setClsPlaceholder(CD->getParent());
      b += st(FD->getBody(), 1) + "}\n";
    } else
    b += st(FD->getBody(), 0);
    bodies += "#ifndef IPR_SKIP_" + name + "\n" + b + "#endif\n\n";
    auto PL = C.getSourceManager().getPresumedLoc(FD->getLocation());
    fnJson.push_back("{\"name\": \"" + name + "\", \"qualified\": \"" + jsonEsc(FD->getQualifiedNameAsString()) + "\", \"type\": \"" + jsonEsc(FD->getType().getAsString()) + "\", \"file\": \"" + jsonEsc(PL.isValid() ? PL.getFilename() : "?") + "\", \"line\": " + std::to_string(PL.isValid() ? PL.getLine() : 0) + ", \"loops\": " + std::to_string(loopOrd) + ", \"sig\": \"" + jsonEsc(sig) + "\"}");
  }
  std::vector<std::string> fnJson, noBody;
  void drain() {
    while (!work.empty()) {
      auto* FD = work.front(); work.pop_front();
      const FunctionDecl* Def = FD->getDefinition();
      if (!Def || !Def->hasBody()) { fnName[FD] = fnName.count(FD) ? fnName[FD] : mangle(FD); protos += "/* no body (pure virtual or external): " + FD->getQualifiedNameAsString() + " */ " + signature(FD) + ";\n"; noBody.push_back("{\"name\": \"" + fnName[FD] + "\", \"qualified\": \"" + jsonEsc(FD->getQualifiedNameAsString()) + "\", \"sig\": \"" + jsonEsc(signature(FD)) + "\"}"); continue; }
      if (!Tolerant) emitFunction(Def);
      else { try { emitFunction(Def); } catch (Unsupported& u) { UnsupportedLog[u.what].insert(Def->getQualifiedNameAsString()); } }
    }
  }
  void run(const std::vector<const FunctionDecl*>& roots) {
    for (auto* R : roots) { fn(R); if (auto* CD = dyn_cast<CXXConstructorDecl>(R)) if (CD->getParent()->isPolymorphic()) clsId(CD->getParent()); }
    drain();
    // dispatchers may pull in final overriders, whose bodies may construct new classes and make new virtual calls: iterate
    for (int round = 0; round < 50; ++round) {
      size_t nf = fnSeen.size(), nc = constructed.size(), nv = vstubs.size();
      genDispatch(); drain();
      if (fnSeen.size() == nf && constructed.size() == nc && vstubs.size() == nv) break;
      if (round == 49) throw Unsupported{"dispatch generation did not reach a fixpoint"};
    }
    genDispatch();
    // make sure every named record has a definition
    for (bool again = true; again; ) { again = false;
      std::vector<const CXXRecordDecl*> rs; for (auto& kv : recName) rs.push_back(kv.first);
      for (auto* R : rs) if (R->getDefinition() && !recDone.count(R->getDefinition())) { try { needRecord(R); } catch (Unsupported& u) { if (!Tolerant) throw; UnsupportedLog[u.what].insert("<record>"); recDone.insert(R->getDefinition()); } again = true; } }
  }
};

struct Finder : RecursiveASTVisitor<Finder> {
  Lower& L; std::vector<const FunctionDecl*> found; std::set<std::string> hit;
  explicit Finder(Lower& l) : L(l) {}
  bool shouldVisitTemplateInstantiations() const { return true; }
  bool shouldVisitImplicitCode() const { return true; }
  std::vector<std::string> enumJson;
  bool VisitEnumDecl(EnumDecl* E) {
    if (!E->isCompleteDefinition()) return true;
    std::string q = E->getQualifiedNameAsString();
    if (q.rfind("ipr::", 0) != 0 || q.find("(anonymous") != std::string::npos) return true;
    for (auto* C : E->enumerators()) enumJson.push_back("{\"name\": \"" + q + "::" + C->getNameAsString() + "\", \"value\": " + llvm::toString(C->getInitVal(), 10) + "}");
    return true;
  }
  std::vector<const CXXMethodDecl*> vroots; std::set<std::string> vhit;
  bool VisitCXXMethodDecl(CXXMethodDecl* M) {
    if (VirtualRoots.empty() || !M->isVirtual() || M->isTemplated() || M->getParent()->isDependentContext()) return true;
    if (M->size_overridden_methods() != 0) return true;                      // only the method that introduces the virtual
    std::string q = M->getQualifiedNameAsString();
    for (auto& r : VirtualRoots) if (q == r && !vhit.count(q + "#" + L.mangle(M))) { vhit.insert(q + "#" + L.mangle(M)); vhit.insert("v:" + r); vroots.push_back(M->getCanonicalDecl()); }
    return true;
  }
  bool VisitFunctionDecl(FunctionDecl* D) {
    if (!D->doesThisDeclarationHaveABody() || D->isTemplated()) return true;
    if (D->isDefaulted() && !D->isUserProvided() && isa<CXXMethodDecl>(D) && !RootsMangled.size() && !Roots.size() && !RootPrefixes.size()) return true;
    std::string q = D->getQualifiedNameAsString();
    for (auto& r : Roots) if (q == r) { found.push_back(D); hit.insert("q:" + r); }
    for (auto& r : RootPrefixes) if (q.rfind(r, 0) == 0) { found.push_back(D); hit.insert("p:" + r); }
    if (!RootsMangled.empty()) { std::string m = L.mangle(D); for (auto& r : RootsMangled) if (m == r) { found.push_back(D); hit.insert("m:" + r); } }
    return true;
  }
};
static void writeFile(const std::string& path, const std::string& text) {
  std::error_code EC; llvm::raw_fd_ostream os(path, EC); if (EC) { llvm::errs() << "cannot write " << path << "\n"; exit(2); } os << text;
}
static std::string joinJson(const std::vector<std::string>& v) { std::string r = "["; for (size_t i = 0; i < v.size(); ++i) r += (i ? ",\n  " : "\n  ") + v[i]; return r + (v.empty() ? "]" : "\n ]"); }
std::string catalogueJson(ASTContext& C, Lower& L);
struct Cons : ASTConsumer {
  void HandleTranslationUnit(ASTContext& C) override {
    if (C.getDiagnostics().hasErrorOccurred()) { llvm::errs() << "cxx2c: clang reported errors\n"; exit(2); }
    Lower L(C);
    for (auto& o : Outline) { auto p = o.find('#'); if (p == std::string::npos) { llvm::errs() << "bad --outline " << o << "\n"; exit(2); } L.outlineReqs.push_back({o.substr(0, p), atoi(o.c_str() + p + 1)}); }
    Finder F(L); F.TraverseDecl(C.getTranslationUnitDecl());
    bool miss = false;
    for (auto& r : Roots) if (!F.hit.count("q:" + r)) { llvm::errs() << "MUST-FIRE: root not found: " << r << "\n"; miss = true; }
    for (auto& r : RootPrefixes) if (!F.hit.count("p:" + r)) { llvm::errs() << "MUST-FIRE: root prefix not found: " << r << "\n"; miss = true; }
    for (auto& r : RootsMangled) if (!F.hit.count("m:" + r)) { llvm::errs() << "MUST-FIRE: mangled root not found: " << r << "\n"; miss = true; }
    for (auto& r : VirtualRoots) if (!F.vhit.count("v:" + r)) { llvm::errs() << "MUST-FIRE: virtual root not found: " << r << "\n"; miss = true; }
    for (auto* M : F.vroots) L.requestDispatcher(M);
    if (miss || (F.found.empty() && !Catalogue)) { llvm::errs() << "MUST-FIRE: no root found\n"; exit(2); }
    try { L.run(F.found); }
    catch (Unsupported& u) { llvm::errs() << "UNSUPPORTED: " << u.what << " in " << (L.curFn ? L.curFn->getQualifiedNameAsString() : std::string("?")) << "\n"; exit(2); }
    for (auto& R : L.outlineReqs) if (!R.done) { llvm::errs() << "MUST-FIRE: loop to outline not found: " << R.fn << "#" << R.ord << "\n"; exit(2); }
    if (Tolerant) { llvm::errs() << "ROOTS " << F.found.size() << " FUNCTIONS " << L.fnSeen.size() << "\n"; for (auto& kv : UnsupportedLog) { llvm::errs() << "UNSUP\t" << kv.second.size() << "\t" << kv.first << "\t" << *kv.second.begin() << "\n"; } }
    std::string out = "/* generated by cxx2c from the clang AST of /repo; do not edit */\n";
    for (auto& e : L.excIds) out += "#define " + e.first + " " + std::to_string(e.second) + "\n";
    for (auto* D : L.constructed) out += "#define IPR_CLS_" + L.rec(D).substr(1) + " " + std::to_string(L.clsIds[D]) + " /* " + D->getQualifiedNameAsString() + " */\n";
    for (auto& kv : L.fnName) out += "#ifndef CONTRACT_" + kv.second + "\n#define CONTRACT_" + kv.second + "\n#endif\n";
    for (auto& m : L.loopMacros) out += "#ifndef " + m + "\n#define " + m + "\n#endif\n";
    out += L.structs + "\n" + L.globalDecls + "\n" + L.protos + "\n#ifndef IPR_NO_GLOBAL_DEFS\n" + L.globalDefs + "#endif\n\n" + L.resolveClsPlaceholders(L.bodies) + "\n" + L.dispatchers + "\n" + L.outlined;
    if (OutC.empty()) llvm::outs() << out; else writeFile(OutC, out);
    if (!OutJson.empty()) {
      std::vector<std::string> vs; for (auto& kv : L.virtStubs) vs.push_back(kv.second);
      std::vector<std::string> ex; for (auto& e : L.excIds) ex.push_back("{\"name\": \"" + e.first + "\", \"id\": " + std::to_string(e.second) + "}");
      std::vector<std::string> cs; for (auto& kv : L.calls) { std::string a = "{\"caller\": \"" + kv.first + "\", \"callees\": ["; bool f = true; for (auto& c : kv.second) { a += (f ? "\"" : ", \"") + c + "\""; f = false; } cs.push_back(a + "]}"); }
      std::vector<std::string> lm; for (auto& m : L.loopMacros) lm.push_back("\"" + m + "\"");
      std::vector<std::string> cls; for (auto* D : L.constructed) cls.push_back("{\"id\": " + std::to_string(L.clsIds[D]) + ", \"class\": \"" + Lower::jsonEsc(D->getQualifiedNameAsString()) + "\", \"struct\": \"" + L.rec(D) + "\"}");
      std::string j = "{\n \"enums\": " + joinJson(F.enumJson) + ",\n \"classes\": " + joinJson(cls) + ",\n \"dispatch\": " + joinJson(L.dispatchJson) + ",\n \"functions\": " + joinJson(L.fnJson) + ",\n \"no_body\": " + joinJson(L.noBody) + ",\n \"virtual_stubs\": " + joinJson(vs) + ",\n \"std_stubs\": " + joinJson(L.stdJson)
        + ",\n \"exceptions\": " + joinJson(ex) + ",\n \"globals\": " + joinJson(L.globalJson) + ",\n \"loops\": " + joinJson(lm) + ",\n \"calls\": " + joinJson(cs);
      if (Catalogue) j += ",\n \"catalogue\": " + catalogueJson(C, L);
      j += "\n}\n";
      writeFile(OutJson, j);
    }
  }
};
// ---- catalogue: facts about the class hierarchy read off the AST (K6 / enumeration of instances): every complete, non-dependent
// record of namespace ipr with its bases and member functions (fully qualified types), so that harness generators can enumerate
// factories, interface accessors and visitor hooks of the CURRENT tree instead of a hand-kept list.
struct CatVisitor : RecursiveASTVisitor<CatVisitor> {
  ASTContext& C; Lower& L; PrintingPolicy PP; std::vector<std::string> recs; std::set<const CXXRecordDecl*> seen;
  CatVisitor(ASTContext& c, Lower& l) : C(c), L(l), PP(c.getPrintingPolicy()) { PP.SuppressTagKeyword = true; PP.Bool = true; PP.SuppressUnwrittenScope = false; PP.SuppressInlineNamespace = true; }
  bool shouldVisitTemplateInstantiations() const { return true; }
  std::string ty(QualType T) { return Lower::jsonEsc(TypeName::getFullyQualifiedName(T, C, PP, false)); }
  std::string canon(QualType T) { return Lower::jsonEsc(TypeName::getFullyQualifiedName(T.getCanonicalType(), C, PP, false)); }
  bool VisitCXXRecordDecl(CXXRecordDecl* D) {
    if (!D->isThisDeclarationADefinition() || D->isDependentContext() || D->isLambda() || D->isInjectedClassName()) return true;
    if (isa<ClassTemplatePartialSpecializationDecl>(D) || D->getDescribedClassTemplate()) return true;
    std::string q = D->getQualifiedNameAsString();
    if (q.rfind("ipr::", 0) != 0 || !seen.insert(D->getCanonicalDecl()).second) return true;
    std::string iface;
    for (auto* Dm : D->lookup(&C.Idents.get("Interface"))) if (auto* TD = dyn_cast<TypedefNameDecl>(Dm)) iface = canon(TD->getUnderlyingType());
    std::string r = "{\"name\": \"" + canon(C.getRecordType(D)) + "\", \"interface\": \"" + iface + "\", \"qualified\": \"" + Lower::jsonEsc(q) + "\", \"abstract\": " + (D->isAbstract() ? "true" : "false") + ", \"polymorphic\": " + (D->isPolymorphic() ? "true" : "false")
      + ", \"final\": " + (D->isEffectivelyFinal() ? "true" : "false") + ", \"local\": " + (D->isLocalClass() ? "true" : "false") + ", \"bases\": [";
    bool f = true; for (auto& B : D->bases()) { r += std::string(f ? "" : ", ") + "\"" + canon(B.getType()) + "\""; f = false; }
    r += "], \"methods\": [";
    f = true;
    for (auto* M : D->methods()) {
      if (M->isImplicit() || isa<CXXConstructorDecl>(M) || isa<CXXDestructorDecl>(M) || M->isTemplated()) continue;
      std::string m = "{\"name\": \"" + Lower::jsonEsc(M->getNameAsString()) + "\", \"ret\": \"" + ty(M->getReturnType()) + "\", \"ret_canon\": \"" + canon(M->getReturnType()) + "\", \"virtual\": " + (M->isVirtual() ? "true" : "false") + ", \"pure\": " + (M->isPure() ? "true" : "false")
        + ", \"const\": " + (M->isConst() ? "true" : "false") + ", \"static\": " + (M->isStatic() ? "true" : "false") + ", \"access\": \"" + (M->getAccess() == AS_public ? "public" : M->getAccess() == AS_protected ? "protected" : "private")
        + "\", \"introduces\": " + (M->isVirtual() && M->size_overridden_methods() == 0 ? "true" : "false") + ", \"deleted\": " + (M->isDeleted() ? "true" : "false") + ", \"mangled\": \"" + L.mangle(M) + "\", \"params\": [";
      bool g = true; for (auto* P : M->parameters()) { m += std::string(g ? "" : ", ") + "\"" + ty(P->getType()) + "\""; g = false; }
      m += "], \"params_canon\": [";
      g = true; for (auto* P : M->parameters()) { m += std::string(g ? "" : ", ") + "\"" + canon(P->getType()) + "\""; g = false; }
      m += "], \"defaults\": [";
      g = true; for (auto* P : M->parameters()) { m += std::string(g ? "" : ", ") + (P->hasDefaultArg() ? "true" : "false"); g = false; }
      r += std::string(f ? "" : ", ") + m + "]}"; f = false;
    }
    r += "], \"ctors\": [";
    f = true;
    for (auto* K : D->ctors()) {
      if (K->isImplicit() || K->isDeleted() || K->isTemplated() || K->isCopyOrMoveConstructor()) continue;
      std::string m = "["; bool g = true; for (auto* P : K->parameters()) { m += std::string(g ? "" : ", ") + "\"" + ty(P->getType()) + "\""; g = false; }
      r += std::string(f ? "" : ", ") + m + "]"; f = false;
    }
    recs.push_back(r + "]}");
    return true;
  }
};
std::string catalogueJson(ASTContext& C, Lower& L) { CatVisitor V(C, L); V.TraverseDecl(C.getTranslationUnitDecl()); return "{\"records\": " + joinJson(V.recs) + "}"; }
struct Act : ASTFrontendAction { std::unique_ptr<ASTConsumer> CreateASTConsumer(CompilerInstance&, llvm::StringRef) override { return std::make_unique<Cons>(); } };
int main(int argc, const char** argv) {
  auto P = tooling::CommonOptionsParser::create(argc, argv, Cat);
  if (!P) { llvm::errs() << P.takeError(); return 1; }
  tooling::ClangTool T(P->getCompilations(), P->getSourcePathList());
  return T.run(tooling::newFrontendActionFactory<Act>().get());
}
