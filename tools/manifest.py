#!/usr/bin/env python3
"""regenerate MANIFEST.json from the table below (kept valid at all times)"""
import json
props = [json.loads(l) for l in open('/verif/properties.jsonl')]
TECH = "contract-based deductive verification: CBMC code contracts (goto-instrument --dfcc) and assertions on clang-lowered real code"
TRUST = "clang 14 front end, cxx2c lowering (DESIGN.md 3.2), goto-cc/goto-instrument/cbmc 6.11 and its SAT back end are trusted; "
CLAIMED = {
 "C16": ("proof", "Loop-free CBMC runs over the lowered real operator[] / subst / constructors with fully symbolic (possibly aliasing) parameters and expressions: holds for all parameters and all prior map states admitted by the assumed std::map contract.",
         TRUST + "std::map is not verified (single-witness finite-map abstraction).", "DESIGN.md 6 (C16)"),
 "C08": ("proof", "Rotations are proved against a full rewiring contract with frame (K1); the fixup_insert loop is proved by an induction step and an exit condition on the mechanically outlined real loop body over a symbolic local neighbourhood with ghost black heights (K2, lifted by the pen-and-paper lemma L-tree); whole insert/find sequences are additionally checked bounded (K5: 3 keys quick, 5 keys thorough) and are listed as bounded, not proved.",
         TRUST + "induction lemma L-tree (DESIGN.md 5.3) is not machine-checked; descent loops and the insert/find bodies are covered only by the bounded obligations so far; std::allocator assumed to return fresh storage.", "DESIGN.md 6 (C08)"),
 "C10": ("proof", "The set operations are proved over the whole 64-bit domain with a symbolic element; name-to-set mapping, the 20 named accessors and decomposition are proved on the lowered real code against the constant tables clang evaluates from the source, with table loops fully unwound and the subset of basic names symbolic (all 2^18 / 2^3 subsets at once); unknown names: normal return is proved unreachable.",
         TRUST + "std::vector::push_back modelled as append; the Lexicon object's own state is arbitrary (these members read none of it); mutable static state introduced under these functions makes the run undecided and falls back to a native sweep.", "DESIGN.md 6 (C10)"),
 "C03": ("proof", "arena::allocate is proved against a full contract (block size, writability, carved from free space or from a new object, representation invariant, frame) for every length up to 2^40; make_string against that contract and an assumed std::copy; the reserved-word lookup for every word of <= 24 arbitrary bytes against the constant table clang evaluates; intern from an arbitrary bucket state over assumed std::map/std::hash/forward_list contracts.",
         TRUST + "library contracts of DESIGN.md 5.2 (operator new, std::copy, u8string_view comparison, std::hash, std::map, forward_list, find_if, lower_bound) are assumed; bucket chains of <= 2 earlier words; L-history lifts the single-call contracts to all interning histories.", "DESIGN.md 6 (C03)"),
 "C15": ("proof", "One loop-free obligation group per derived operation named by the property: the real inline bodies of <ipr/interface> / <ipr/ancillary> run on foreign nodes whose primitive accessors are arbitrary functions, with sizes, indices and spellings symbolic; equalities are checked as equivalences on three symbolic values.",
         TRUST + "class-template helpers are proved at one instantiation each (same body for every element type); primitive accessors are modelled as arbitrary functions of the receiver.", "DESIGN.md 6 (C15)"),
 "C11": ("proof", "get_qualified is proved on the lowered real code for symbolic qualifier sets and arbitrary operand nodes (plain or already qualified, built by the real constructor and read through real dynamic dispatch); the table's insert is used through its contract with the real comparator and element constructor; the comparator is proved a total order with zero set = key equality.",
         TRUST + "insert's contract is established by C08 for the template body modulo L-tree / L-order; qualified operands are assumed in normal form (table invariant, L-history); std::less<> and std::allocator assumed.", "DESIGN.md 6 (C11)"),
 "C01": ("proof", "For every type constructor of the property a two-request obligation on the lowered real get_* body (operands from symbolic pools of arbitrary nodes, transfers by spelling, qualifier sets by value): same request <=> same node, result reports its operands, natural-transfer and default-specification collapsing across overloads; each table's insert is used through its contract, with the comparator clang resolved inside insert and the element constructor run for real (CTOR-KEY); each comparator is proved a three-way total order on three symbolic requests (CMP-ORDER).  Product/sum obligations bound the sequence length (<= 2) and are listed as bounded.",
         TRUST + "insert's contract is established by C08 modulo L-tree / L-order; L-history lifts the two-request statement to every history; Warehouse overloads of get_product/get_sum are not yet covered; std::less, u8string_view::compare, std::allocator assumed.", "DESIGN.md 6 (C01)"),
 "C04": ("proof", "For every name and atom constructor of the property a two-request obligation on the lowered real body (operands from symbolic pools of arbitrary nodes; Strings: a reserved spelling, the empty word and two other words): same request <=> same node, the result reports its operands, reserved spellings yield the reserved Identifier / logogram / linkage / `default` constant; each table's insert is used through its contract with the comparator clang resolved inside insert (incl. the capturing comparator of get_symbol) and the real element constructor; each comparator is proved a three-way total order on three symbolic requests.",
         TRUST + "insert's contract is established by C08 modulo L-tree / L-order; interning (get_string) and the reserved-word lookup are used through the contracts C03 proves; L-history lifts the two-request statement to every history; equality of Linkage / Calling_convention / Transfer values is C15's obligation; std::less and u8string_view comparison assumed.", "DESIGN.md 6 (C04)"),
}
m = {"version": 1,
 "setup_cmd": "python3 -c \"import sys; sys.path.insert(0,'lib'); import ipv; ipv.ensure_cxx2c()\"",
 "hooks": {"guard": "IPR_VERIF", "enable": "no hooks: contracts live in sidecar files under /verif/contracts keyed by mangled name; /repo is lowered by cxx2c as it stands",
           "baseline_off_cmd": "cmake --build /repo/_build && ctest --test-dir /repo/_build -j8 --timeout 900", "source_commits": [], "add_only": True},
 "engines": [{"name": "cxx2c+cbmc", "path": "bin/check", "serves_properties": sorted(CLAIMED), "kind_free_text": "clang-AST lowering of the real functions to C (tools/cxx2c), sidecar CBMC code contracts, goto-instrument --dfcc, cbmc; native replay of counterexamples (replay/replay.cxx)"}],
 "checks": [], "not_applicable": []}
NA = {"C17": "two-run hyper-property over whole object graphs (isomorphic graphs print identically, re-printing prints the same): a function contract relates one call's pre- and post-state and cannot relate two executions (DESIGN.md 7)",
      "C20": "quantified over thread schedules; CBMC has no thread support under contracts (DESIGN.md 7)"}
for p in props:
    pid = p['id']
    if pid in CLAIMED:
        cat, text, note, ref = CLAIMED[pid]
        m["checks"].append({"property_id": pid, "quick_cmd": "bin/check %s --tier quick" % pid, "thorough_cmd": "bin/check %s --tier thorough" % pid,
            "evidence_file": "evidence/%s.json" % pid, "replay_cmd_template": "bin/check %s --replay {path}" % pid, "engine": "cxx2c+cbmc",
            "level_claimed": {"category": cat, "text": text, "design_ref": ref}, "level_note": note, "technique": TECH})
    else:
        m["not_applicable"].append({"property_id": pid, "reason": NA.get(pid, "not built yet (work in progress; see DESIGN.md section 10)")})
json.dump(m, open('/verif/MANIFEST.json', 'w'), indent=1)
