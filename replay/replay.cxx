// Native replay of counterexamples on the real code of /repo (built from the working tree by lib/ipv.py).
// usage: replay <family> key=value ...     exit 1 = the property's clause fails on the real code (violation reproduced),
//                                          exit 0 = the clause holds for this input, 3 = bad usage.
#include <ipr/impl>
#include <ipr/io>
#include <ipr/traversal>
#include <iostream>
#include <sstream>
#include <map>
#include <string>
#include <cstdlib>
using namespace ipr;
using Args = std::map<std::string, std::string>;
static long num(const Args& a, const char* k, long d = 0) { auto i = a.find(k); return i == a.end() ? d : std::strtol(i->second.c_str(), nullptr, 0); }
static int fails = 0;
#define CLAUSE(cond, text) do { if (!(cond)) { std::cout << "REPLAY-FAIL: " << text << "\n"; ++fails; } else std::cout << "replay-ok: " << text << "\n"; } while (0)

static int replay_C16(const Args& a)
{
   impl::Lexicon lex; impl::Translation_unit unit{lex};
   impl::Region* r = unit.global_region();
   auto* m = lex.make_mapping(*r);
   auto* p = m->param(lex.get_identifier(u8"x"), lex.int_type());
   auto* q = m->param(lex.get_identifier(u8"y"), lex.int_type());
   auto* v = lex.make_literal(lex.int_type(), u8"1");
   auto* w = lex.make_literal(lex.int_type(), u8"2");
   auto* es = lex.make_elementary_substitution(*p, *v);
   CLAUSE(&(*es)[*p] == static_cast<const Expr*>(v), "elementary substitution maps its parameter to the bound expression");
   CLAUSE(&(*es)[*q] == static_cast<const Expr*>(q), "elementary substitution maps any other parameter to itself");
   auto* gs = lex.make_general_substitution();
   CLAUSE(&(*gs)[*q] == static_cast<const Expr*>(q), "general substitution: parameter outside the domain maps to itself");
   gs->subst(*p, *v);
   CLAUSE(&(*gs)[*p] == static_cast<const Expr*>(v), "general substitution: bound parameter maps to its expression");
   CLAUSE(&(*gs)[*q] == static_cast<const Expr*>(q), "general substitution: other parameter unchanged by subst");
   gs->subst(*p, *w);
   CLAUSE(&(*gs)[*p] == static_cast<const Expr*>(w), "general substitution: latest binding wins");
   (void)a;
   return fails;
}

int main(int argc, char** argv)
{
   if (argc < 2) return 3;
   Args a; for (int i = 2; i < argc; ++i) { std::string s = argv[i]; auto e = s.find('='); if (e != std::string::npos) a[s.substr(0, e)] = s.substr(e + 1); }
   std::string f = argv[1];
   int n = -1;
   try {
      if (f == "C16") n = replay_C16(a);
      else { std::cerr << "unknown replay family " << f << "\n"; return 3; }
   } catch (const std::exception& e) { std::cout << "REPLAY-EXCEPTION: " << e.what() << "\n"; return 4; }
   return n > 0 ? 1 : 0;
}
