// Native replay of counterexamples on the real code of /repo (built from the working tree by lib/ipv.py).
// usage: replay <family> key=value ...     exit 1 = the property's clause fails on the real code (violation reproduced),
//                                          exit 0 = the clause holds for this input, 3 = bad usage.
#include <ipr/impl>
#include <ipr/io>
#include <ipr/traversal>
#include <iostream>
#include <sstream>
#include <map>
#include <string>
#include <cstdlib>
#include <vector>
#include <deque>
#include <algorithm>
using namespace ipr;
using Args = std::map<std::string, std::string>;
static long num(const Args& a, const char* k, long d = 0) { auto i = a.find(k); return i == a.end() ? d : std::strtol(i->second.c_str(), nullptr, 0); }
static int fails = 0;
#define CLAUSE(cond, text) do { if (!(cond)) { std::cout << "REPLAY-FAIL: " << text << "\n"; ++fails; } else std::cout << "replay-ok: " << text << "\n"; } while (0)

static int replay_C16(const Args& a)
{
   impl::Lexicon lex; impl::Translation_unit unit{lex};
   impl::Region* r = unit.global_region();
   auto* m = lex.make_mapping(*r);
   auto* p = m->param(lex.get_identifier(u8"x"), lex.int_type());
   auto* q = m->param(lex.get_identifier(u8"y"), lex.int_type());
   auto* v = lex.make_literal(lex.int_type(), u8"1");
   auto* w = lex.make_literal(lex.int_type(), u8"2");
   auto* es = lex.make_elementary_substitution(*p, *v);
   CLAUSE(&(*es)[*p] == static_cast<const Expr*>(v), "elementary substitution maps its parameter to the bound expression");
   CLAUSE(&(*es)[*q] == static_cast<const Expr*>(q), "elementary substitution maps any other parameter to itself");
   auto* gs = lex.make_general_substitution();
   CLAUSE(&(*gs)[*q] == static_cast<const Expr*>(q), "general substitution: parameter outside the domain maps to itself");
   gs->subst(*p, *v);
   CLAUSE(&(*gs)[*p] == static_cast<const Expr*>(v), "general substitution: bound parameter maps to its expression");
   CLAUSE(&(*gs)[*q] == static_cast<const Expr*>(q), "general substitution: other parameter unchanged by subst");
   gs->subst(*p, *w);
   CLAUSE(&(*gs)[*p] == static_cast<const Expr*>(w), "general substitution: latest binding wins");
   (void)a;
   return fails;
}

// ---- C08: the real tree templates, reached through derived classes (root is protected)
namespace c08 {
   struct cmp3 { int operator()(long a, long b) const { return a < b ? -1 : (b < a ? 1 : 0); } };
   struct Item : util::rb_tree::link<Item> { long key; };
   struct icmp { int operator()(const Item& a, const Item& b) const { return cmp3{}(a.key, b.key); }
                 int operator()(const Item& a, long b) const { return cmp3{}(a.key, b); } };
   template<class N, class K> int chk(N* n, N* parent, bool hl, long lo, bool hh, long hi, K key, int depth, int& maxd)
   {
      if (!n) return 0;
      if (depth > maxd) maxd = depth;
      if (depth > 200) return -1;
      if (n->parent() != parent) return -1;
      if (hl && !(key(n) > lo)) return -1;
      if (hh && !(key(n) < hi)) return -1;
      using util::rb_tree::Color;
      if (n->color == Color::Red && ((n->left() && n->left()->color == Color::Red) || (n->right() && n->right()->color == Color::Red))) return -1;
      int a = chk(n->left(), n, true, key(n), hh, hi, key, depth + 1, maxd), b = chk(n->right(), n, hl, lo, true, key(n), key, depth + 1, maxd);
      if (a < 0 || b < 0 || a != b) return -1;
      return a + (n->color == Color::Black);
   }
   static bool height_ok(int h, long n) { return h < 62 && (1ULL << h) <= (unsigned long long)(n + 1) * (unsigned long long)(n + 1); }  /* h <= 2*log2(n+1) */
   struct Own : util::rb_tree::container<long> {
      bool valid() { if (!root) return true; if (root->color != util::rb_tree::Color::Black) return false; int md = 0;
         int r = chk(root, (util::rb_tree::node<long>*)nullptr, false, 0, false, 0, [](auto* n) { return n->data; }, 1, md); return r >= 0 && height_ok(md, size()); }
   };
   struct Intr : util::rb_tree::chain<Item> {
      bool valid(long distinct) { if (!root) return distinct == 0; if (root->color != util::rb_tree::Color::Black) return false; int md = 0;
         int r = chk(root, (Item*)nullptr, false, 0, false, 0, [](Item* n) { return n->key; }, 1, md); return r >= 0 && height_ok(md, distinct); }
   };
   // one sequence through both flavours; false when a clause of C08 fails
   static bool run(const std::vector<long>& ks, std::string& why)
   {
      Own t; std::map<long, long*> seen; std::deque<Item> items; Intr c; 
      for (long k : ks) {
         long* r = t.insert(k, cmp3{});
         if (!r || *r != k) { why = "owning insert returned a wrong element"; return false; }
         if (seen.count(k) && seen[k] != r) { why = "owning insert of an equal key did not return the existing element"; return false; }
         seen[k] = r;
         if ((long)seen.size() != t.size()) { why = "owning count differs from the number of distinct keys"; return false; }
         if (!t.valid()) { why = "owning tree violates the red-black / search / parent-link / height rules"; return false; }
         items.push_back(Item{}); items.back().key = k;
         if (c.insert(&items.back(), icmp{}) != &items.back()) { why = "intrusive insert did not return the node"; return false; }
         if (!c.valid((long)seen.size())) { why = "intrusive tree violates the red-black / search / parent-link / height rules"; return false; }
         for (auto& kv : seen) { if (t.find(kv.first, cmp3{}) != kv.second) { why = "owning: inserted key not found"; return false; }
                                 Item* f = c.find(kv.first, icmp{}); if (!f || f->key != kv.first) { why = "intrusive: inserted key not found"; return false; } }
      }
      for (long q = -1; q <= (long)ks.size() + 1; ++q) if (!seen.count(q)) { if (t.find(q, cmp3{}) || c.find(q, icmp{})) { why = "a key never inserted was found"; return false; } }
      return true;
   }
}
static int replay_C08(const Args& a)
{
   std::string why; std::vector<long> ks;
   auto it = a.find("keys");
   if (it != a.end()) { std::stringstream ss(it->second); std::string tok; while (std::getline(ss, tok, ',')) if (!tok.empty()) ks.push_back(std::strtol(tok.c_str(), nullptr, 0));
      bool ok = c08::run(ks, why); CLAUSE(ok, "C08 on the verifier's key sequence " << it->second << (ok ? "" : (": " + why))); if (!ok) return fails; }
   // no (usable) counterexample input: sweep the real code -- all permutations of 1..n (n <= 8), all sequences with duplicates (length <= 6), sorted runs
   for (int n = 1; n <= 8; ++n) { std::vector<long> p(n); for (int i = 0; i < n; ++i) p[i] = i + 1;
      do { if (!c08::run(p, why)) { std::string s; for (long k : p) s += std::to_string(k) + " "; CLAUSE(false, "C08 sweep, permutation " << s << ": " << why); return fails; } } while (std::next_permutation(p.begin(), p.end())); }
   for (int m = 1; m <= 6; ++m) { std::vector<long> s(m, 1);
      while (true) { if (!c08::run(s, why)) { std::string t; for (long k : s) t += std::to_string(k) + " "; CLAUSE(false, "C08 sweep, sequence " << t << ": " << why); return fails; }
         int i = m - 1; while (i >= 0 && s[i] == m) { s[i] = 1; --i; } if (i < 0) break; ++s[i]; } }
   for (int n : {100, 1000}) { std::vector<long> up(n), dn(n); for (int i = 0; i < n; ++i) { up[i] = i; dn[i] = n - i; }
      if (!c08::run(up, why)) { CLAUSE(false, "C08 sweep, ascending " << n << ": " << why); return fails; }
      if (!c08::run(dn, why)) { CLAUSE(false, "C08 sweep, descending " << n << ": " << why); return fails; } }
   CLAUSE(true, "C08 native sweep (perm <= 8, dup sequences <= 6, sorted runs) found no failing input");
   return fails;
}

int main(int argc, char** argv)
{
   if (argc < 2) return 3;
   Args a; for (int i = 2; i < argc; ++i) { std::string s = argv[i]; auto e = s.find('='); if (e != std::string::npos) a[s.substr(0, e)] = s.substr(e + 1); }
   std::string f = argv[1];
   int n = -1;
   try {
      if (f == "C16") n = replay_C16(a);
      else if (f == "C08") n = replay_C08(a);
      else { std::cerr << "unknown replay family " << f << "\n"; return 3; }
   } catch (const std::exception& e) { std::cout << "REPLAY-EXCEPTION: " << e.what() << "\n"; return 4; }
   return n > 0 ? 1 : 0;
}
