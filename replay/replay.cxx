// Native replay of counterexamples on the real code of /repo (built from the working tree by lib/ipv.py).
// usage: replay <family> key=value ...     exit 1 = the property's clause fails on the real code (violation reproduced),
//                                          exit 0 = the clause holds for this input, 3 = bad usage.
#include <ipr/impl>
#include <ipr/io>
#include <ipr/traversal>
#include <iostream>
#include <sstream>
#include <map>
#include <string>
#include <cstdlib>
#include <vector>
#include <deque>
#include <algorithm>
using namespace ipr;
using Args = std::map<std::string, std::string>;
static long num(const Args& a, const char* k, long d = 0) { auto i = a.find(k); return i == a.end() ? d : std::strtol(i->second.c_str(), nullptr, 0); }
static int fails = 0;
#define CLAUSE(cond, text) do { if (!(cond)) { std::cout << "REPLAY-FAIL: " << text << "\n"; ++fails; } else std::cout << "replay-ok: " << text << "\n"; } while (0)

static int replay_C16(const Args& a)
{
   impl::Lexicon lex; impl::Translation_unit unit{lex};
   impl::Region* r = unit.global_region();
   auto* m = lex.make_mapping(*r);
   auto* p = m->param(lex.get_identifier(u8"x"), lex.int_type());
   auto* q = m->param(lex.get_identifier(u8"y"), lex.int_type());
   auto* v = lex.make_literal(lex.int_type(), u8"1");
   auto* w = lex.make_literal(lex.int_type(), u8"2");
   auto* es = lex.make_elementary_substitution(*p, *v);
   CLAUSE(&(*es)[*p] == static_cast<const Expr*>(v), "elementary substitution maps its parameter to the bound expression");
   CLAUSE(&(*es)[*q] == static_cast<const Expr*>(q), "elementary substitution maps any other parameter to itself");
   // parameters of ANOTHER parameter list at the same nesting level and position must not be captured
   auto* m2 = lex.make_mapping(*r);
   auto* p2 = m2->param(lex.get_identifier(u8"x"), lex.int_type());
   auto* q2 = m2->param(lex.get_identifier(u8"y"), lex.int_type());
   CLAUSE(&(*es)[*p2] == static_cast<const Expr*>(p2), "elementary substitution leaves a same-position parameter of another list unchanged");
   CLAUSE(&(*es)[*q2] == static_cast<const Expr*>(q2), "elementary substitution leaves any parameter of another list unchanged");
   auto* es2 = lex.make_elementary_substitution(*q, *p);     // bound expression is itself a parameter
   CLAUSE(&(*es2)[*q] == static_cast<const Expr*>(p) && &(*es2)[*p] == static_cast<const Expr*>(p), "elementary substitution [q -> p]");
   auto* gs = lex.make_general_substitution();
   CLAUSE(&(*gs)[*q] == static_cast<const Expr*>(q), "general substitution: parameter outside the domain maps to itself");
   gs->subst(*p, *v);
   CLAUSE(&(*gs)[*p] == static_cast<const Expr*>(v), "general substitution: bound parameter maps to its expression");
   CLAUSE(&(*gs)[*q] == static_cast<const Expr*>(q), "general substitution: other parameter unchanged by subst");
   gs->subst(*p, *w);
   CLAUSE(&(*gs)[*p] == static_cast<const Expr*>(w), "general substitution: latest binding wins");
   CLAUSE(&(*gs)[*p] == static_cast<const Expr*>(w), "general substitution: repeated query after rebinding");
   gs->subst(*p, *p);
   CLAUSE(&(*gs)[*p] == static_cast<const Expr*>(p), "general substitution: identity rebinding replaces the earlier binding");
   gs->subst(*q, *v); (void)(*gs)[*q]; gs->subst(*q, *w);
   CLAUSE(&(*gs)[*q] == static_cast<const Expr*>(w), "general substitution: query, rebind, query");
   CLAUSE(&(*gs)[*p2] == static_cast<const Expr*>(p2), "general substitution: parameter of another list unchanged");
   (void)a;
   return fails;
}

// ---- C08: the real tree templates, reached through derived classes (root is protected)
namespace c08 {
   struct cmp3 { int operator()(long a, long b) const { return a < b ? -1 : (b < a ? 1 : 0); } };
   struct Item : util::rb_tree::link<Item> { long key; };
   struct icmp { int operator()(const Item& a, const Item& b) const { return cmp3{}(a.key, b.key); }
                 int operator()(const Item& a, long b) const { return cmp3{}(a.key, b); } };
   template<class N, class K> int chk(N* n, N* parent, bool hl, long lo, bool hh, long hi, K key, int depth, int& maxd)
   {
      if (!n) return 0;
      if (depth > maxd) maxd = depth;
      if (depth > 200) return -1;
      if (n->parent() != parent) return -1;
      if (hl && !(key(n) > lo)) return -1;
      if (hh && !(key(n) < hi)) return -1;
      using util::rb_tree::Color;
      if (n->color == Color::Red && ((n->left() && n->left()->color == Color::Red) || (n->right() && n->right()->color == Color::Red))) return -1;
      int a = chk(n->left(), n, true, key(n), hh, hi, key, depth + 1, maxd), b = chk(n->right(), n, hl, lo, true, key(n), key, depth + 1, maxd);
      if (a < 0 || b < 0 || a != b) return -1;
      return a + (n->color == Color::Black);
   }
   static bool height_ok(int h, long n) { return h < 62 && (1ULL << h) <= (unsigned long long)(n + 1) * (unsigned long long)(n + 1); }  /* h <= 2*log2(n+1) */
   struct Own : util::rb_tree::container<long> {
      bool valid() { if (!root) return true; if (root->color != util::rb_tree::Color::Black) return false; int md = 0;
         int r = chk(root, (util::rb_tree::node<long>*)nullptr, false, 0, false, 0, [](auto* n) { return n->data; }, 1, md); return r >= 0 && height_ok(md, size()); }
   };
   struct Intr : util::rb_tree::chain<Item> {
      bool valid(long distinct) { if (!root) return distinct == 0; if (root->color != util::rb_tree::Color::Black) return false; int md = 0;
         int r = chk(root, (Item*)nullptr, false, 0, false, 0, [](Item* n) { return n->key; }, 1, md); return r >= 0 && height_ok(md, distinct); }
   };
   // one sequence through both flavours; false when a clause of C08 fails
   static bool run(const std::vector<long>& ks, std::string& why)
   {
      Own t; std::map<long, long*> seen; std::deque<Item> items; Intr c; 
      for (long k : ks) {
         long* r = t.insert(k, cmp3{});
         if (!r || *r != k) { why = "owning insert returned a wrong element"; return false; }
         if (seen.count(k) && seen[k] != r) { why = "owning insert of an equal key did not return the existing element"; return false; }
         seen[k] = r;
         if ((long)seen.size() != t.size()) { why = "owning count differs from the number of distinct keys"; return false; }
         if (!t.valid()) { why = "owning tree violates the red-black / search / parent-link / height rules"; return false; }
         items.push_back(Item{}); items.back().key = k;
         if (c.insert(&items.back(), icmp{}) != &items.back()) { why = "intrusive insert did not return the node"; return false; }
         if (!c.valid((long)seen.size())) { why = "intrusive tree violates the red-black / search / parent-link / height rules"; return false; }
         for (auto& kv : seen) { if (t.find(kv.first, cmp3{}) != kv.second) { why = "owning: inserted key not found"; return false; }
                                 Item* f = c.find(kv.first, icmp{}); if (!f || f->key != kv.first) { why = "intrusive: inserted key not found"; return false; } }
      }
      for (long q = -1; q <= (long)ks.size() + 1; ++q) if (!seen.count(q)) { if (t.find(q, cmp3{}) || c.find(q, icmp{})) { why = "a key never inserted was found"; return false; } }
      return true;
   }
}
static int replay_C08(const Args& a)
{
   std::string why; std::vector<long> ks;
   auto it = a.find("keys");
   if (it != a.end()) { std::stringstream ss(it->second); std::string tok; while (std::getline(ss, tok, ',')) if (!tok.empty()) ks.push_back(std::strtol(tok.c_str(), nullptr, 0));
      bool ok = c08::run(ks, why); CLAUSE(ok, "C08 on the verifier's key sequence " << it->second << (ok ? "" : (": " + why))); if (!ok) return fails; }
   // no (usable) counterexample input: sweep the real code -- all permutations of 1..n (n <= 8), all sequences with duplicates (length <= 6), sorted runs
   for (int n = 1; n <= 8; ++n) { std::vector<long> p(n); for (int i = 0; i < n; ++i) p[i] = i + 1;
      do { if (!c08::run(p, why)) { std::string s; for (long k : p) s += std::to_string(k) + " "; CLAUSE(false, "C08 sweep, permutation " << s << ": " << why); return fails; } } while (std::next_permutation(p.begin(), p.end())); }
   for (int m = 1; m <= 6; ++m) { std::vector<long> s(m, 1);
      while (true) { if (!c08::run(s, why)) { std::string t; for (long k : s) t += std::to_string(k) + " "; CLAUSE(false, "C08 sweep, sequence " << t << ": " << why); return fails; }
         int i = m - 1; while (i >= 0 && s[i] == m) { s[i] = 1; --i; } if (i < 0) break; ++s[i]; } }
   for (int n : {100, 1000}) { std::vector<long> up(n), dn(n); for (int i = 0; i < n; ++i) { up[i] = i; dn[i] = n - i; }
      if (!c08::run(up, why)) { CLAUSE(false, "C08 sweep, ascending " << n << ": " << why); return fails; }
      if (!c08::run(dn, why)) { CLAUSE(false, "C08 sweep, descending " << n << ": " << why); return fails; } }
   CLAUSE(true, "C08 native sweep (perm <= 8, dup sequences <= 6, sorted runs) found no failing input");
   return fails;
}

// ---- C10: native sweep over the public API (all subsets, all pairs on a sample, unknown names incl. near misses, call sequences)
static int replay_C10(const Args&)
{
   impl::Lexicon lex;
   struct Acc { const char8_t* name; Specifiers v; };
   const Acc acc[] = { {u8"export", lex.export_specifier()}, {u8"static", lex.static_specifier()}, {u8"extern", lex.extern_specifier()}, {u8"mutable", lex.mutable_specifier()},
      {u8"thread_local", lex.thread_local_specifier()}, {u8"register", lex.register_specifier()}, {u8"inline", lex.inline_specifier()}, {u8"consteval", lex.consteval_specifier()},
      {u8"constexpr", lex.constexpr_specifier()}, {u8"virtual", lex.virtual_specifier()}, {u8"=0", lex.abstract_specifier()}, {u8"explicit", lex.explicit_specifier()},
      {u8"friend", lex.friend_specifier()}, {u8"typedef", lex.typedef_specifier()}, {u8"public", lex.public_specifier()}, {u8"protected", lex.protected_specifier()}, {u8"private", lex.private_specifier()} };
   std::vector<Basic_specifier> basis = lex.decompose(Specifiers(~std::uintptr_t{}));
   CLAUSE(basis.size() == 18, "decompose(all bits) lists the 18 basic specifiers");
   std::vector<Specifiers> sets; bool ok = true;
   for (auto b : basis) sets.push_back(lex.specifiers(b));
   for (size_t i = 0; i < sets.size(); ++i) { if (util::rep(sets[i]) == 0) ok = false; for (size_t j = 0; j < i; ++j) if (util::rep(sets[i] & sets[j]) != 0) ok = false; }
   CLAUSE(ok, "basic specifiers map to non-empty, pairwise disjoint sets");
   ok = true;
   for (auto& a : acc) { bool hit = false; for (size_t i = 0; i < basis.size(); ++i) if (basis[i].logogram().what().characters() == a.name) { hit = true; if (sets[i] != a.v) ok = false; } if (!hit) ok = false; }
   CLAUSE(ok, "named specifier accessors equal the mapping of their own name");
   ok = true;
   for (unsigned sel = 0; sel < (1u << basis.size()) && ok; ++sel) {
      Specifiers m{}; std::vector<const Logogram*> want;
      for (size_t i = 0; i < basis.size(); ++i) if ((sel >> i) & 1) { m |= sets[i]; want.push_back(&basis[i].logogram()); }
      auto d = lex.decompose(m); if (d.size() != want.size()) { ok = false; break; }
      for (size_t k = 0; k < d.size(); ++k) if (&d[k].logogram() != want[k]) ok = false;
   }
   CLAUSE(ok, "for all 2^18 subsets decompose(union) is exactly the subset, in table order");
   auto quals = lex.decompose(Qualifiers(~std::uintptr_t{}));
   CLAUSE(quals.size() == 3, "decompose(all bits) lists the 3 basic qualifiers");
   ok = true;
   for (unsigned sel = 0; sel < 8; ++sel) { Qualifiers m{}; unsigned n = 0; for (size_t i = 0; i < quals.size(); ++i) if ((sel >> i) & 1) { m |= lex.qualifiers(quals[i]); ++n; }
      if (lex.decompose(m).size() != n) ok = false; }
   CLAUSE(ok, "qualifier subsets decompose exactly");
   // algebra on a sample of pairs, incl. empty and partly-contained second operands
   ok = true; std::uintptr_t x = 0x9E3779B97F4A7C15ull;
   for (int it = 0; it < 20000; ++it) { x ^= x << 13; x ^= x >> 7; x ^= x << 17; std::uintptr_t a = x & 0x3ffff; x ^= x << 13; x ^= x >> 7; x ^= x << 17; std::uintptr_t b = (it % 7 == 0) ? 0 : (x & 0x3ffff);
      Specifiers A{a}, B{b};
      if (util::rep(A | B) != (a | b) || util::rep(A & B) != (a & b) || util::rep(A ^ B) != (a ^ b) || implies(A, B) != ((b & ~a) == 0)) ok = false; }
   CLAUSE(ok, "| & ^ implies are the set operations on 20000 sampled pairs");
   // unknown names: non-basic reserved words, near misses, fresh logograms; each asked twice, interleaved with successful queries
   ok = true;
   const char8_t* unknown[] = { u8"override", u8"constexpr", u8"consteval", u8"constinit", u8"const_cast", u8"static_assert", u8"=0;", u8"volatil", u8"int", u8"", u8"restrict " };
   for (auto w : unknown) {
      auto& logo = lex.get_logogram(lex.get_string(w));
      for (int round = 0; round < 3; ++round) {
         if (round == 0) { (void)lex.specifiers(basis[5]); (void)lex.qualifiers(quals[0]); }   /* second round: asked again right after the refusal */
         bool is_q = false, is_s = false;
         for (auto q : quals) if (q.logogram().what().characters() == w) is_q = true;
         for (auto b : basis) if (b.logogram().what().characters() == w) is_s = true;
         if (!is_q) { try { (void)lex.qualifiers(Basic_qualifier{logo}); ok = false; std::cout << "qualifier answered for unknown name\n"; } catch (...) { } }
         if (!is_s) { try { (void)lex.specifiers(Basic_specifier{logo}); ok = false; std::cout << "specifier answered for unknown name\n"; } catch (...) { } }
      }
   }
   CLAUSE(ok, "unknown names (non-basic words, near misses) are refused, also when asked again after a successful query");
   return fails;
}

// ---- C03: native sweep of interning
static int replay_C03(const Args&)
{
   impl::Lexicon lex, lex2;
   bool ok = true;
   // boundaries: inline header (8), granule (16), around pool capacity; all byte values incl. NUL; not NUL-terminated sources
   std::vector<std::u8string> words; std::vector<const String*> nodes;
   auto add = [&](std::u8string w) { const String& s = lex.get_string(w); words.push_back(w); nodes.push_back(&s); if (s.characters() != std::u8string_view(w)) ok = false; };
   for (int n : {1, 7, 8, 9, 15, 16, 17, 23, 24, 25, 31, 32, 33, 255, 256, 4096}) { std::u8string w; for (int i = 0; i < n; ++i) w.push_back(char8_t((i * 37 + n) & 0xff)); add(w); }
   for (int i = 0; i < 30000; ++i) { std::u8string w(100, u8'a'); for (int k = 0; k < 8; ++k) w[k] = char8_t(u8'A' + ((i >> (4 * k)) & 15)); w[50] = 0; add(w); }   // > 1 MiB: rolls over pools
   { std::u8string big(70000 * 16, u8'z'); big[5] = 1; add(big); add(std::u8string(100, u8'q')); }          // oversize word, then a normal one
   CLAUSE(ok, "interned Strings have exactly the bytes given (boundary lengths, all byte values, NUL inside)");
   ok = true;
   for (size_t i = 0; i < words.size(); ++i) { if (nodes[i]->characters() != std::u8string_view(words[i])) ok = false; if (&lex.get_string(words[i]) != nodes[i]) ok = false; }
   CLAUSE(ok, "no later interning altered an earlier String, and equal contents return the same node (30000 words across pool roll-overs)");
   ok = true;
   for (size_t i = 1; i < 2000; ++i) if (nodes[i] == nodes[i - 1]) ok = false;
   CLAUSE(ok, "different contents give different nodes");
   CLAUSE(&lex.get_string(u8"") == &String::empty_string() && &lex2.get_string(u8"") == &String::empty_string(), "the empty word is the process-wide empty String");
   // reserved words: same constant node in every Lexicon, equal to the names of built-ins / constants; near misses are not reserved
   const char8_t* reserved[] = { u8"...", u8"=0", u8"C", u8"C++", u8"auto", u8"bool", u8"char", u8"char16_t", u8"char32_t", u8"char8_t", u8"class", u8"const", u8"consteval", u8"constexpr", u8"constinit",
      u8"default", u8"delete", u8"double", u8"enum", u8"explicit", u8"export", u8"extern", u8"false", u8"float", u8"friend", u8"inline", u8"int", u8"long", u8"long double", u8"long long", u8"mutable", u8"namespace",
      u8"nullptr", u8"private", u8"protected", u8"public", u8"register", u8"restrict", u8"short", u8"signed char", u8"static", u8"this", u8"thread_local", u8"true", u8"typedef", u8"typename", u8"union",
      u8"unsigned char", u8"unsigned int", u8"unsigned long", u8"unsigned long long", u8"unsigned short", u8"virtual", u8"void", u8"volatile", u8"wchar_t" };
   ok = true;
   for (auto w : reserved) { std::u8string_view v{w}; if (&lex.get_string(v) != &lex2.get_string(v)) ok = false; if (lex.get_string(v).characters() != v) ok = false;
      std::u8string near{v}; near.push_back(u8'x'); if (&lex.get_string(near) == &lex.get_string(v) || lex.get_string(near).characters() != std::u8string_view(near)) ok = false;
      if (v.size() > 1) { std::u8string pre{v.substr(0, v.size() - 1)}; if (lex.get_string(pre).characters() != std::u8string_view(pre)) ok = false; } }
   CLAUSE(ok, "every reserved word maps to one process-wide node in every Lexicon; near misses do not");
   {  const Identifier* id = util::view<Identifier>(lex.ulong_long_type().name()); CLAUSE(id && &id->string() == &lex.get_string(u8"unsigned long long"), "the longest reserved word names unsigned long long through its constant node");
      const Identifier* id2 = util::view<Identifier>(lex.int_type().name()); CLAUSE(id2 && &id2->string() == &lex.get_string(u8"int"), "'int' is the constant node naming the built-in type"); }
   return fails;
}

// ---- C15: derived operations against primitives, on real nodes
static int replay_C15(const Args&)
{
   impl::Lexicon lex; impl::Translation_unit unit{lex};
   impl::Region* r = unit.global_region();
   auto* b = lex.make_block(*r);
   CLAUSE(b->try_block() == (b->handlers().size() > 0), "a block without handlers is not a try-block");
   b->new_handler(lex.get_identifier(u8"e"), lex.int_type());
   CLAUSE(b->try_block() == (b->handlers().size() > 0), "a block with a handler is a try-block");
   CLAUSE(&b->body() == &b->region().body(), "block body is its region's body");
   impl::Warehouse<Type> wh; wh.push_back(lex.int_type()); wh.push_back(lex.bool_type());
   auto& fn = lex.get_function(lex.get_product(wh), lex.void_type());
   CLAUSE(fn.source().size() == fn.source().elements().size() && &fn.source()[1] == &*fn.source().elements().position(1), "product size / indexing agree with its elements");
   CLAUSE(&fn.linkage() == &fn.transfer().linkage() && fn.linkage() == lex.cxx_linkage(), "type linkage is its transfer's linkage");
   CLAUSE(lex.cxx_linkage() == lex.cxx_linkage() && !(lex.cxx_linkage() == lex.c_linkage()) && lex.get_linkage(u8"C") == lex.c_linkage(), "linkage equality follows spelling");
   auto& seq = fn.source().elements(); std::size_t n = 0; for (auto it = seq.begin(); it != seq.end(); ++it) { if (&*it != &*seq.position(n)) ++fails; ++n; }
   CLAUSE(n == seq.size() && seq.empty() == (seq.size() == 0), "iteration visits exactly size() elements");
   // == and != on transfers, linkages, conventions over a grid: != is the negation of ==, == follows the spelling of both components
   const Linkage* lk[3] = { &lex.cxx_linkage(), &lex.c_linkage(), &lex.get_linkage(u8"Java") };
   const Calling_convention* cc[3] = { &lex.get_calling_convention(u8""), &lex.get_calling_convention(u8"__stdcall"), &lex.get_calling_convention(u8"__fastcall") };
   bool neg = true, spelled = true;
   for (int a1 = 0; a1 < 3; ++a1) for (int a2 = 0; a2 < 3; ++a2) for (int b1 = 0; b1 < 3; ++b1) for (int b2 = 0; b2 < 3; ++b2) {
      auto& x = lex.get_transfer(*lk[a1], *cc[a2]); auto& y = lex.get_transfer(*lk[b1], *cc[b2]);
      neg = neg && ((x != y) == !(x == y)) && ((*lk[a1] != *lk[b1]) == !(*lk[a1] == *lk[b1])) && ((*cc[a2] != *cc[b2]) == !(*cc[a2] == *cc[b2]));
      spelled = spelled && ((x == y) == (a1 == b1 && a2 == b2));
   }
   CLAUSE(neg, "!= is the negation of == on transfers, linkages and calling conventions (3 x 3 grid, all pairs)");
   CLAUSE(spelled, "transfers are equal exactly when both components are spelled the same");
   CLAUSE(impl::cxx_transfer().convention() == lex.get_calling_convention(u8""), "the natural calling convention equals the convention spelled \"\"");
   return fails;
}

// ---- C11: qualified types in normal form
static int replay_C11(const Args&)
{
   impl::Lexicon lex;
   const Qualifiers qs[] = { lex.const_qualifier(), lex.volatile_qualifier(), lex.restrict_qualifier() };
   auto& base = lex.get_pointer(lex.int_type());
   bool refused = false; try { (void)lex.get_qualified(Qualifiers{}, base); } catch (const std::logic_error&) { refused = true; }
   CLAUSE(refused, "an empty qualifier set is refused with a logic error");
   bool ok = true, order = true;
   for (unsigned a = 1; a < 8; ++a) for (unsigned b = 1; b < 8; ++b) {
      Qualifiers qa{}, qb{}; for (int i = 0; i < 3; ++i) { if ((a >> i) & 1) qa |= qs[i]; if ((b >> i) & 1) qb |= qs[i]; }
      auto& inner = lex.get_qualified(qa, base); auto& outer = lex.get_qualified(qb, inner);
      if (util::rep(outer.qualifiers()) == 0) ok = false;
      if (util::view<Qualified>(outer.main_variant()) != nullptr) ok = false;
      if (&outer.main_variant() != static_cast<const Type*>(&base) || outer.qualifiers() != (qa | qb)) ok = false;
      if (&outer != &lex.get_qualified(qa | qb, base)) order = false;
      if (&lex.get_qualified(qa, lex.get_qualified(qb, base)) != &outer) order = false;
   }
   CLAUSE(ok, "qualifying a qualified type yields the union of the qualifier sets over the innermost unqualified type");
   CLAUSE(order, "the result is independent of the order and grouping in which qualifiers are applied");
   return fails;
}

// ---- C01 / C04: unification of type, name and atom constructors (two requests with the same arguments, others in between)
static int replay_C01(const Args& a)
{
   impl::Lexicon lex;
   const Type& i = lex.int_type(); const Type& c = lex.char_type();
   auto* e1 = lex.make_literal(i, u8"1"); auto* e2 = lex.make_literal(i, u8"2");
   impl::Warehouse<Type> w1; w1.push_back(i); w1.push_back(c);
   impl::Warehouse<Type> w2; w2.push_back(i); w2.push_back(c);
   impl::Warehouse<Type> w3; w3.push_back(c); w3.push_back(i);
   auto& p1 = lex.get_product(w1); auto& s1 = lex.get_sum(w1);
   for (int k = 0; k < 200; ++k) (void)lex.get_pointer(lex.get_pointer(lex.get_array(i, *lex.make_literal(i, std::u8string(1, char8_t(u8'a' + k % 26)) + std::u8string(1, char8_t(u8'a' + k / 26))))));   // things built in between
   bool sel = a.count("only") == 0;
   auto want = [&](const char* n) { return sel || a.at("only") == n; };
   if (want("pointer")) CLAUSE(&lex.get_pointer(i) == &lex.get_pointer(i) && &lex.get_pointer(i) != &lex.get_pointer(c), "pointer types are unified");
   if (want("reference")) CLAUSE(&lex.get_reference(i) == &lex.get_reference(i) && &lex.get_rvalue_reference(i) == &lex.get_rvalue_reference(i) && &lex.get_reference(i) != &lex.get_reference(c), "reference types are unified");
   if (want("array")) CLAUSE(&lex.get_array(i, *e1) == &lex.get_array(i, *e1) && &lex.get_array(i, *e1) != &lex.get_array(i, *e2) && &lex.get_array(i, *e1) != &lex.get_array(c, *e1), "array types are unified");
   if (want("as_type")) CLAUSE(&lex.get_as_type(*e1) == &lex.get_as_type(*e1) && &lex.get_as_type(*e1) != &lex.get_as_type(*e2), "expression-as-type is unified");
   if (want("as_type_xfer")) { auto& x = lex.get_transfer(lex.c_linkage(), lex.get_calling_convention(u8"cdecl"));
      CLAUSE(&lex.get_as_type(*e1, x) == &lex.get_as_type(*e1, x) && &lex.get_as_type(*e1, impl::cxx_transfer()) == &lex.get_as_type(*e1), "expression-as-type with transfer is unified; natural transfer collapses"); }
   if (want("product")) CLAUSE(&p1 == &lex.get_product(w2) && &p1 != &lex.get_product(w3) && &s1 == &lex.get_sum(w2) && &s1 != &lex.get_sum(w3), "products and sums are unified element-wise");
   if (want("function")) CLAUSE(&lex.get_function(p1, i) == &lex.get_function(p1, i) && &lex.get_function(p1, i) == &lex.get_function(p1, i, impl::cxx_transfer()) && &lex.get_function(p1, i) != &lex.get_function(p1, c), "function types are unified; default specification / natural transfer are the same request");
   if (want("tor")) CLAUSE(&lex.get_tor(p1, s1) == &lex.get_tor(p1, s1), "tor types are unified");
   if (want("forall")) CLAUSE(&lex.get_forall(p1, i) == &lex.get_forall(p1, i) && &lex.get_forall(p1, i) != &lex.get_forall(p1, c), "forall types are unified");
   if (want("ptr_to_member")) CLAUSE(&lex.get_ptr_to_member(i, c) == &lex.get_ptr_to_member(i, c) && &lex.get_ptr_to_member(i, c) != &lex.get_ptr_to_member(c, i), "pointer-to-member types are unified");
   if (want("qualified")) CLAUSE(&lex.get_qualified(lex.const_qualifier(), i) == &lex.get_qualified(lex.const_qualifier(), i), "qualified types are unified");
   if (want("transfer")) CLAUSE(&lex.get_transfer(lex.c_linkage(), lex.get_calling_convention(u8"cdecl")) == &lex.get_transfer(lex.get_linkage(u8"C"), lex.get_calling_convention(u8"cdecl")), "transfers are unified by spelling");
   // names and atoms (C04)
   auto& id = lex.get_identifier(u8"foo");
   if (want("identifier")) CLAUSE(&id == &lex.get_identifier(u8"foo") && &id != &lex.get_identifier(u8"bar"), "identifiers are unified");
   if (want("operator")) CLAUSE(&lex.get_operator(u8"+") == &lex.get_operator(u8"+") && &lex.get_operator(u8"+") != &lex.get_operator(u8"-"), "operator names are unified");
   if (want("suffix")) CLAUSE(&lex.get_suffix(id) == &lex.get_suffix(id), "literal-suffix names are unified");
   if (want("conversion")) CLAUSE(&lex.get_conversion(i) == &lex.get_conversion(i) && &lex.get_conversion(i) != &lex.get_conversion(c), "conversion names are unified");
   if (want("ctor_name")) CLAUSE(&lex.get_ctor_name(i) == &lex.get_ctor_name(i) && &lex.get_dtor_name(i) == &lex.get_dtor_name(i), "constructor / destructor names are unified");
   if (want("literal")) CLAUSE(&lex.get_literal(i, u8"7") == &lex.get_literal(i, u8"7") && &lex.get_literal(i, u8"7") != &lex.get_literal(c, u8"7"), "literals are unified");
   if (want("symbol")) CLAUSE(&lex.get_symbol(id, i) == &lex.get_symbol(id, i) && &lex.get_label(id) == &lex.get_label(id) && &lex.get_this(i) == &lex.get_this(i), "symbols, labels and this are unified");
   if (want("linkage")) CLAUSE(&lex.get_linkage(u8"Java") == &lex.get_linkage(u8"Java") && &lex.get_calling_convention(u8"cdecl") == &lex.get_calling_convention(u8"cdecl"), "linkages and calling conventions are unified");
   if (want("logogram")) CLAUSE(&lex.get_logogram(lex.get_string(u8"xyz")) == &lex.get_logogram(lex.get_string(u8"xyz")), "logograms are unified");
   if (want("lookalike")) { impl::Lexicon other; const ipr::String& foreign = other.get_string(u8"foo");      // a String node that is not this Lexicon's
      CLAUSE(&lex.get_identifier(foreign) == &id, "the identifier of a spelling is one node, whichever String node carries the spelling");
      CLAUSE(&lex.get_operator(other.get_string(u8"+")) == &lex.get_operator(u8"+"), "the operator name of a spelling is one node, whichever String node carries the spelling"); }
   if (want("void_label")) { auto& d = lex.get_identifier(u8"default"); auto& sy = lex.get_symbol(d, lex.void_type()); (void)sy;
      CLAUSE(&lex.get_label(d) == &lex.default_value(), "the label `default` is the default constant even after a symbol (default, void) was requested");
      CLAUSE(&lex.get_label(id) == &lex.get_symbol(id, lex.void_type()), "a label is the symbol (name, void)"); }
   // a spelling has a single Identifier everywhere: reserved spellings are the names of the built-in types and constants
   if (want("reserved")) {
      CLAUSE(&lex.get_identifier(u8"int") == &lex.int_type().name(), "get_identifier(\"int\") is the name of the built-in type int, not a look-alike");
      CLAUSE(&lex.get_identifier(lex.get_string(u8"unsigned long")) == &lex.ulong_type().name(), "get_identifier(String \"unsigned long\") is the name of the built-in type");
      CLAUSE(&lex.get_identifier(u8"default") == &lex.default_value().name(), "get_identifier(\"default\") is the name of the `default` constant");
      CLAUSE(&lex.get_label(lex.get_identifier(u8"default")) == &lex.default_value(), "the label spelled default is the default constant");
      CLAUSE(&lex.get_logogram(lex.get_string(u8"int")).what() == &lex.get_string(u8"int") && &lex.get_linkage(u8"C") == &lex.c_linkage() && &lex.get_linkage(lex.get_string(u8"C++")) == &lex.cxx_linkage(), "reserved logograms and the two standard linkages are the constants");
   }
   return fails;
}

// ---- C07: scopes, overload sets and declaration sets
static int replay_C07(const Args&)
{
   impl::Lexicon lex; impl::Translation_unit unit { lex };
   impl::Region* r = unit.global_region()->make_subregion();
   const Type& i = lex.int_type(); const Type& c = lex.char_type();
   auto& x = lex.get_identifier(u8"x"); auto& y = lex.get_identifier(u8"y"); auto& z = lex.get_identifier(u8"z");
   auto* x1 = r->declare_var(x, i); auto* y1 = r->declare_var(y, i); auto* x2 = r->declare_var(x, c); auto* x3 = r->declare_var(x, i);
   const Scope& s = r->bindings();
   CLAUSE(s.elements().size() == 4 && &*s.elements().position(0) == x1 && &*s.elements().position(1) == y1 && &*s.elements().position(2) == x2 && &*s.elements().position(3) == x3, "the scope lists every declaration in entry order");
   const Product* tp = dynamic_cast<const Product*>(&s.type());
   if (tp == nullptr) { CLAUSE(false, "the scope's type is a product"); return fails; }
   const Product& t = *tp;
   CLAUSE(t.size() == 4 && &t[0] == &i && &t[1] == &i && &t[2] == &c && &t[3] == &i, "the scope's type is the product of the declarations' types in order");
   CLAUSE(s[x].is_valid() && s[y].is_valid() && !s[z].is_valid(), "looking a name up yields an overload set exactly when the name was declared");
   if (s[x].is_valid()) {
      const Overload& o = s[x].get();
      CLAUSE(o[i].is_valid() && &o[i].get() == x1 && o[c].is_valid() && &o[c].get() == x2, "selecting by type yields the first declaration entered with that name and type");
   }
   bool masters = false, sets = false;
   try { masters = &x1->master() == x1 && &x3->master() == x1 && &x2->master() == x2 && &y1->master() == y1; } catch (const std::logic_error&) { }
   CLAUSE(masters, "each declaration's master is the first declaration with its name and type");
   try { sets = x1->decl_set().size() == 2 && &*x1->decl_set().position(0) == x1 && &*x1->decl_set().position(1) == x3 && &x3->decl_set() == &x1->decl_set() && x2->decl_set().size() == 1 && y1->decl_set().size() == 1; } catch (const std::logic_error&) { }
   CLAUSE(sets, "a declaration-set is exactly the declarations sharing name and type, in entry order");
   CLAUSE(&x3->name() == &x && &x3->type() == &i && &x2->type() == &c, "declarations report their name and type");
   return fails;
}

// ---- C06: category, accept and visitor defaults (native sweep over nodes reachable through the public API)
namespace {
   struct Sink : ipr::Visitor {          // only the seven pure sinks: records which abstract super-category a node ends in
      const char* hit = ""; const Node* who = nullptr; int calls = 0;
      void visit(const Node& n) override { hit = "Node"; who = &n; ++calls; }
      void visit(const Expr& n) override { hit = "Expr"; who = &n; ++calls; }
      void visit(const Name& n) override { hit = "Name"; who = &n; ++calls; }
      void visit(const Type& n) override { hit = "Type"; who = &n; ++calls; }
      void visit(const Directive& n) override { hit = "Directive"; who = &n; ++calls; }
      void visit(const Stmt& n) override { hit = "Stmt"; who = &n; ++calls; }
      void visit(const Decl& n) override { hit = "Decl"; who = &n; ++calls; }
   };
   void sink_is(const Node& n, const char* want, Category_code c, const char* what)
   {
      Sink v; n.accept(v);
      bool ok = v.calls == 1 && v.who == &n && std::string(v.hit) == want && n.category == c;
      if (!ok) { std::cout << "REPLAY-FAIL: " << what << ": category/accept/default chain ends in " << v.hit << " (calls " << v.calls << "), expected " << want << "\n"; ++fails; }
      else std::cout << "replay-ok: " << what << " -> " << want << "\n";
   }
}
static int replay_C06(const Args&)
{
   impl::Lexicon lex; impl::Translation_unit unit { lex };
   impl::Region* r = unit.global_region();
   const Type& i = lex.int_type();
   auto& x = lex.get_identifier(u8"x");
   impl::Mapping* m = lex.make_mapping(*r, Mapping_level{1});
   auto* p = m->param(x, i);
   sink_is(m->parameters(), "Expr", Category_code::Parameter_list, "a parameter list is an expression");
   sink_is(*p, "Decl", Category_code::Parameter, "a parameter is a declaration");
   sink_is(*m, "Expr", Category_code::Mapping, "a mapping is an expression");
   sink_is(x, "Name", Category_code::Identifier, "an identifier is a name");
   sink_is(lex.get_pointer(i), "Type", Category_code::Pointer, "a pointer type is a type");
   sink_is(*lex.make_plus(*lex.make_literal(i, u8"1"), *lex.make_literal(i, u8"2")), "Expr", Category_code::Plus, "a sum is a classic expression");
   sink_is(*r, "Node", Category_code::Region, "a region is a node");
   sink_is(*lex.make_break(), "Stmt", Category_code::Break, "break is a statement");
   sink_is(*r->declare_var(x, i), "Decl", Category_code::Var, "a variable is a declaration");
   sink_is(r->bindings(), "Expr", Category_code::Scope, "a scope is an expression");
   // view<K> is a function of the node alone: a node of another category living where a probed node used to live is not a K
   {
      alignas(16) static unsigned char slot[sizeof(impl::Identifier) > sizeof(impl::Operator) ? sizeof(impl::Identifier) : sizeof(impl::Operator)];
      const String& s1 = lex.get_string(u8"alpha"); const String& s2 = lex.get_string(u8"+");
      auto* a = new (slot) impl::Identifier(s1);
      bool first = util::view<Identifier>(*a) == a && util::view<Operator>(*a) == nullptr;
      a->~Identifier();
      auto* b = new (slot) impl::Operator(s2);
      bool second = util::view<Identifier>(*static_cast<const Node*>(b)) == nullptr && util::view<Operator>(*b) == b;
      b->~Operator();
      auto* c = new (slot) impl::Identifier(s1);
      bool third = util::view<Identifier>(*c) == c && util::view<Operator>(*static_cast<const Node*>(c)) == nullptr;
      c->~Identifier();
      CLAUSE(first && second && third, "view<K> answers for the node that lives at an address now, not for one that lived there before");
   }
   return fails;
}

// ---- C12: regions form a tree; owners and positions
static int replay_C12(const Args&)
{
   impl::Lexicon lex; impl::Translation_unit unit { lex };
   impl::Region* g = unit.global_region();
   const Type& i = lex.int_type(); auto& x = lex.get_identifier(u8"x"); auto& e = lex.get_identifier(u8"e");
   CLAUSE(g->global() && !g->owner().is_valid() == false, "the unit's root region is global and owned by the global namespace");
   impl::Region* sub = g->make_subregion();
   CLAUSE(&sub->enclosing() == g && !sub->global(), "a subregion is enclosed by the region it was made in and is not global");
   impl::Block* b = lex.make_block(*sub);
   CLAUSE(&b->region().enclosing() == sub && b->region().owner().is_valid() && &b->region().owner().get() == b, "a block's region is enclosed by the region given and owned by the block");
   impl::Handler* h = b->new_handler(e, i);
   const Region& body = h->body().region();
   CLAUSE(body.owner().is_valid() && &body.owner().get() == &h->body(), "a handler body's region is owned by that block");
   const Region& ehr = body.enclosing();
   CLAUSE(ehr.bindings().size() == 1 && &*ehr.bindings().elements().position(0) == &h->exception() && &ehr.enclosing() == &b->region().enclosing(), "a handler's body is enclosed by a region binding exactly its exception parameter, itself enclosed by the region enclosing the guarded block");
   impl::Mapping* m = lex.make_mapping(*sub, Mapping_level{2});
   auto* p0 = m->param(x, i); auto* p1 = m->param(e, i);
   CLAUSE(m->parameters().region().owner().is_valid() && &m->parameters().region().owner().get() == m && &m->parameters().region().enclosing() == sub, "a mapping owns its parameter region, enclosed by the region given");
   CLAUSE(p0->position() == Decl_position{0} && p1->position() == Decl_position{1} && &p1->home_region() == &m->parameters().region(), "parameters report their zero-based position and home region");
   const Namespace& gns = unit.global_namespace();
   CLAUSE(gns.name().category == Category_code::Identifier && &gns.type() == &lex.namespace_type(), "the global namespace is typed `namespace`");
   int steps = 0; const Region* w = &body; while (!w->global() && steps < 100) { w = &w->enclosing(); ++steps; }
   CLAUSE(w == g, "walking outward reaches the unit's global region");
   return fails;
}

// ---- C02 / C05 / C09 / C14: native sweeps over factory-built nodes (replay targets and fall-back for the generated obligations)
static int replay_C02(const Args&)
{
   impl::Lexicon lex; impl::Translation_unit unit { lex }; impl::Region* g = unit.global_region();
   const Type& i = lex.int_type(); const Type& c = lex.char_type();
   auto* a = lex.make_literal(i, u8"1"); auto* b = lex.make_literal(i, u8"2"); auto* d = lex.make_literal(c, u8"3");
   const Plus& p = *lex.make_plus(*a, *b, &i);
   CLAUSE(&p.first() == a && &p.second() == b && &p.type() == &i && p.category == Category_code::Plus, "a binary node reports its operands in order, its type and its category");
   const If& f2 = *lex.make_if(*a, *b); const If& f3 = *lex.make_if(*a, *b, *d);
   CLAUSE(&f2.condition() == a && &f2.consequence() == b && !f2.alternative().is_valid() && f3.alternative().is_valid() && &f3.alternative().get() == d, "if-statements report condition, consequence and the optional alternative");
   const Cast& k = *lex.make_cast(c, *a);
   CLAUSE(&k.type() == &c && &k.expr() == a, "a cast reports its target type and operand");
   const Enclosure& e = *lex.make_enclosure(Delimiter::Brace, *a);
   CLAUSE(e.delimiters() == Delimiter::Brace && &e.expr() == a, "an enclosure reports its delimiters and expression");
   const Binary_fold& bf = *lex.make_binary_fold(Category_code::Mul, *a, *b);
   CLAUSE(bf.operation() == Category_code::Mul && &bf.first() == a && &bf.second() == b, "a binary fold reports its operation and operands");
   auto& x = lex.get_identifier(u8"x");
   auto* v1 = g->declare_var(x, i); auto* v2 = g->declare_var(x, i);
   const Id_expr& id2 = *lex.make_id_expr(*v2);
   CLAUSE(id2.resolution().is_valid() && &id2.resolution().get() == v2 && &id2.name() == &x && v1 != v2, "an id-expression of a redeclaration resolves to the declaration given, not to its master");
   auto* pg = lex.make_pragma(); Source_location loc; loc.line = Line_number{7}; loc.column = Column_number{9};
   const ipr::Token& t1 = *pg->tokens.push_back(lex.get_string(u8"once"), loc, TokenValue{1}, TokenCategory{2});
   loc.line = Line_number{8}; loc.column = Column_number{1};
   const ipr::Token& t2 = *pg->tokens.push_back(lex.get_string(u8"twice"), loc, TokenValue{3}, TokenCategory{4});
   CLAUSE(t1.lexeme().locus().line == Line_number{7} && t1.lexeme().locus().column == Column_number{9} && t2.lexeme().locus().line == Line_number{8} && t1.value() == TokenValue{1} && t2.category() == TokenCategory{4}, "tokens report the location, value and category they were given");
   const Sequence<ipr::Token>& inc = static_cast<const Pragma&>(*pg).incantation();
   CLAUSE(inc.size() == 2 && &*inc.position(1) == &t2 && &*inc.position(0) == &t1 && &*inc.position(1) == &t2, "a member sequence read in any order yields the element at that index");
   return fails;
}
static int replay_C05(const Args&)
{
   impl::Lexicon lex; impl::Translation_unit unit { lex }; impl::Region* g = unit.global_region();
   const Type& i = lex.int_type();
   std::vector<std::pair<const String*, std::u8string>> seen;
   for (int k = 0; k < 2300; ++k) { std::u8string w(1000, char8_t(u8'a' + k % 26)); w += std::u8string(1, char8_t(u8'A' + (k / 26) % 26)); w += std::u8string(1, char8_t(u8'A' + k / 676)); seen.emplace_back(&lex.get_string(w), w); }
   bool stable = true; for (auto& s : seen) stable = stable && s.first->characters() == util::word_view(s.second) && &lex.get_string(s.second) == s.first;
   CLAUSE(stable, "every String interned earlier keeps its address and its characters after 2 MiB of later words");
   auto* a = lex.make_literal(i, u8"1"); std::vector<const Plus*> ps;
   for (int k = 0; k < 200; ++k) ps.push_back(lex.make_plus(*a, *a));
   bool distinct = true; for (int k = 1; k < 200; ++k) distinct = distinct && ps[k] != ps[k - 1] && &ps[k - 1]->first() == a;
   CLAUSE(distinct, "each make_plus yields a new node and earlier ones read as before");
   impl::Mapping* m = lex.make_mapping(*g, Mapping_level{1}); auto& e = lex.get_identifier(u8"");
   auto* p0 = m->param(e, i); auto before = m->parameters().region().bindings()[e];
   auto* p1 = m->param(e, lex.char_type()); auto after = m->parameters().region().bindings()[e];
   CLAUSE(before.is_valid() && after.is_valid() && &before.get() == &after.get() && &*m->parameters().elements().position(0) == p0 && &*m->parameters().elements().position(1) == p1, "a lookup observed earlier keeps its answer; members are added at the end");
   auto& q = lex.get_forall(lex.get_product(impl::Warehouse<Type>{ }), i); auto& n = lex.get_identifier(u8"tmpl");
   auto* t1 = g->declare_primary_template(n, q); auto* prim = &t1->primary_template(); (void)g->declare_primary_template(n, q);
   CLAUSE(&t1->primary_template() == prim && prim == t1, "a primary template still reports itself after it is redeclared");
   return fails;
}
static int replay_C09(const Args&)
{
   impl::Lexicon lex; impl::Translation_unit unit { lex }; impl::Region* g = unit.global_region();
   const Type& i = lex.int_type(); auto* one = lex.make_literal(i, u8"1");
   CLAUSE(&lex.make_break()->type() == &lex.void_type() && &lex.make_continue()->type() == &lex.void_type() && &lex.delete_value().type() == &lex.void_type(), "break, continue and the deleted-definition constant have type void");
   CLAUSE(&lex.make_restriction(*one)->type() == &lex.bool_type() && &lex.make_requires(*g, Mapping_level{1})->type() == &lex.bool_type(), "requires-clauses and requires-expressions have type bool");
   CLAUSE(&lex.make_class(*g)->type() == &lex.class_type() && &lex.make_union(*g)->type() == &lex.union_type() && &lex.make_namespace(*g)->type() == &lex.namespace_type() && &lex.make_closure(*g)->type() == &lex.class_type(), "user-defined types have their kind type");
   CLAUSE(&static_cast<const Expr&>(lex.get_pointer(i)).type() == &lex.typename_type() && &static_cast<const Expr&>(lex.get_qualified(lex.const_qualifier(), i)).type() == &lex.typename_type(), "compound types have type typename");
   const Type& ci = lex.get_qualified(lex.const_qualifier(), i);
   CLAUSE(&lex.make_literal(i, u8"42")->type() == &i && &lex.make_literal(ci, u8"42")->type() == &ci && &lex.make_cast(ci, *one)->type() == &ci, "literals and casts report their target type, cv-qualified or not");
   auto& x = lex.get_identifier(u8"x"); const Type& ri = lex.get_reference(i);
   CLAUSE(&lex.make_id_expr(*g->declare_var(x, ri))->type() == &ri, "an id-expression of a reference declaration has that reference type");
   auto* l = lex.make_expr_list(); l->push_back(one); bool ok = l->type().size() == 1; l->push_back(lex.make_literal(lex.char_type(), u8"c"));
   CLAUSE(ok && l->type().size() == 2 && &l->type()[1] == &lex.char_type(), "an expression list's type follows later additions");
   CLAUSE(&lex.get_this(i).type() == &i && &lex.get_this(lex.char_type()).type() == &lex.char_type() && &lex.get_this(i).type() == &i, "`this` of two types are two symbols, each with its type");
   return fails;
}
static int replay_C14(const Args&)
{
   impl::Lexicon lex; impl::Translation_unit unit { lex }; impl::Region* g = unit.global_region();
   const Type& i = lex.int_type(); auto* one = lex.make_literal(i, u8"1");
   auto refuses = [](auto&& f) { try { f(); } catch (const std::logic_error&) { return true; } catch (...) { return false; } return false; };
   CLAUSE(refuses([&] { (void)lex.make_for()->body(); }) && refuses([&] { (void)lex.make_while()->condition(); }) && refuses([&] { (void)lex.make_plus(*one, *one)->type(); }), "reading a link that was never set is refused with a logic error");
   auto* b = lex.make_block(*g);
   CLAUSE(refuses([&] { (void)*static_cast<const Block&>(*b).handlers().position(0); }) && refuses([&] { (void)*static_cast<const Block&>(*b).handlers().position(std::size_t(-1)); }) && refuses([&] { (void)*--static_cast<const Block&>(*b).handlers().begin(); }), "an element of an empty sequence is refused at every index, including size_t(-1)");
   auto* h = b->new_handler(lex.get_identifier(u8"e"), i);
   CLAUSE(&*static_cast<const Block&>(*b).handlers().position(0) == h && refuses([&] { (void)*static_cast<const Block&>(*b).handlers().position(1); }), "within bounds the element, at size() a refusal");
   auto& op = lex.get_operator(u8"+"); impl::capture_spec_factory cf;
   CLAUSE(refuses([&] { (void)cf.enclosing_local_capture(*g->declare_var(op, i), Binding_mode::Copy).name(); }), "a capture of a declaration that is not named by an identifier refuses to hand out an Identifier");
   auto& n = lex.get_identifier(u8"f"); auto& ft = lex.get_function(lex.get_product(impl::Warehouse<Type>{ }), i);
   auto* fd = g->declare_fun(n, ft);
   CLAUSE(refuses([&] { (void)static_cast<const Fundecl&>(*fd).parameters(); }), "a function declaration without parameter list refuses parameters()");
   fd->data.emplace<1>();
   CLAUSE(refuses([&] { (void)static_cast<const Fundecl&>(*fd).parameters(); }), "a definition-form function declaration without mapping refuses parameters() with a logic error");
   auto& q = lex.get_forall(lex.get_product(impl::Warehouse<Type>{ }), i); auto& vn = lex.get_identifier(u8"v"); (void)g->declare_var(vn, i);
   bool ok = true; try { const Template& p = g->declare_secondary_template(vn, q)->primary_template(); ok = p.category == Category_code::Template; } catch (const std::logic_error&) { }
   CLAUSE(ok, "primary_template() of a secondary template under a non-template name is refused or is a template");
   return fails;
}

// ---- C13: Lexicon constants (native sweep over the 26 accessors and the spelling routes, two Lexicons)
static int replay_C13(const Args&)
{
   impl::Lexicon a, b;
   struct { const Type& (Lexicon::*acc)() const; const char8_t* spelling; } T[] = {
      { &Lexicon::void_type, u8"void" }, { &Lexicon::bool_type, u8"bool" }, { &Lexicon::char_type, u8"char" }, { &Lexicon::schar_type, u8"signed char" }, { &Lexicon::uchar_type, u8"unsigned char" },
      { &Lexicon::wchar_t_type, u8"wchar_t" }, { &Lexicon::char8_t_type, u8"char8_t" }, { &Lexicon::char16_t_type, u8"char16_t" }, { &Lexicon::char32_t_type, u8"char32_t" }, { &Lexicon::short_type, u8"short" },
      { &Lexicon::ushort_type, u8"unsigned short" }, { &Lexicon::int_type, u8"int" }, { &Lexicon::uint_type, u8"unsigned int" }, { &Lexicon::long_type, u8"long" }, { &Lexicon::ulong_type, u8"unsigned long" },
      { &Lexicon::long_long_type, u8"long long" }, { &Lexicon::ulong_long_type, u8"unsigned long long" }, { &Lexicon::float_type, u8"float" }, { &Lexicon::double_type, u8"double" }, { &Lexicon::long_double_type, u8"long double" },
      { &Lexicon::ellipsis_type, u8"..." }, { &Lexicon::typename_type, u8"typename" }, { &Lexicon::class_type, u8"class" }, { &Lexicon::union_type, u8"union" }, { &Lexicon::enum_type, u8"enum" }, { &Lexicon::namespace_type, u8"namespace" } };
   bool same = true, spelled = true, self = true, route = true, distinct = true;
   for (auto& t : T) {
      const Type& x = (a.*t.acc)(); const Type& y = (b.*t.acc)();
      same = same && &x == &y;
      auto* id = util::view<Identifier>(x.name());
      spelled = spelled && id != nullptr && id->string().characters() == util::word_view(t.spelling);
      auto* at = util::view<As_type>(x);
      self = self && at != nullptr && physically_same(at->expr(), x) && &x.type() == &a.typename_type() && &x.transfer() == &impl::cxx_transfer();
      for (impl::Lexicon* l : { &a, &b }) {
         route = route && &l->get_as_type(l->get_identifier(t.spelling)) == &x && &l->get_as_type(l->get_identifier(l->get_string(t.spelling))) == &x;
         // words arriving through a reused scratch buffer (a tokenizer's buffer), not through literals
         char8_t buf[32]; auto n = std::char_traits<char8_t>::length(t.spelling);
         std::fill(buf, buf + 32, u8'#'); (void)l->get_string(util::word_view(buf, n));
         std::copy(t.spelling, t.spelling + n, buf);
         route = route && &l->get_as_type(l->get_identifier(util::word_view(buf, n))) == &x;
      }
      for (auto& u : T) distinct = distinct && (&t == &u || &(a.*u.acc)() != &x);
   }
   CLAUSE(same, "every Lexicon returns the same built-in type nodes");
   CLAUSE(spelled, "each built-in type names itself with its documented spelling");
   CLAUSE(self, "each built-in type is its own underlying expression, typed typename, with natural transfer");
   CLAUSE(distinct, "the 26 built-in types are pairwise distinct");
   CLAUSE(route, "asking for the type denoted by a built-in spelling yields the constant (literal, String and scratch-buffer routes)");
   bool links = true;
   for (impl::Lexicon* l : { &a, &b }) {
      char8_t buf[4] = { u8'D', 0, 0, 0 }; (void)l->get_linkage(util::word_view(buf, 1)); buf[0] = u8'C';
      links = links && &l->get_linkage(util::word_view(buf, 1)) == &a.c_linkage();
      buf[0] = u8'A'; buf[1] = u8'd'; buf[2] = u8'a'; (void)l->get_linkage(util::word_view(buf, 3)); buf[0] = u8'C'; buf[1] = u8'+'; buf[2] = u8'+';
      links = links && &l->get_linkage(util::word_view(buf, 3)) == &a.cxx_linkage() && &l->get_linkage(u8"C") == &b.c_linkage() && &l->get_linkage(l->get_string(u8"C++")) == &b.cxx_linkage();
      links = links && &l->get_label(l->get_identifier(u8"default")) == &a.default_value() && &l->get_decltype(l->nullptr_value()) == &b.nullptr_value().type();
   }
   CLAUSE(links, "linkage, label and decltype routes yield the constants, also for words in reused buffers");
   CLAUSE(&a.true_value() == &b.true_value() && &a.true_value() != &a.false_value() && &a.true_value().type() == &a.bool_type() && &a.false_value().type() == &a.bool_type() && &a.delete_value().type() == &a.void_type(), "symbolic constants are shared, distinct and correctly typed");
   return fails;
}

// ---- C19: everything allocated on behalf of a Lexicon is returned when it is destroyed; nothing dangles (native sweep).
// Global operator new/delete are replaced by counting versions that poison storage on release.
#include <new>
#include <cstring>
namespace { long live_blocks = 0; bool counting = false; }
void* operator new(std::size_t n) { auto* p = static_cast<std::size_t*>(std::malloc(n + 16)); if (!p) throw std::bad_alloc{}; p[0] = n; if (counting) ++live_blocks; return p + 2; }
void operator delete(void* q) noexcept { if (!q) return; auto* p = static_cast<std::size_t*>(q) - 2; std::memset(q, 0xDD, p[0]); if (counting) --live_blocks; std::free(p); }
void operator delete(void* q, std::size_t) noexcept { operator delete(q); }
static int replay_C19(const Args&)
{
   auto scenario = [](const char* what, auto&& body) { counting = true; long before = live_blocks; body(); long after = live_blocks; counting = false;
      if (after != before) { std::cout << "REPLAY-FAIL: " << what << ": " << (after - before) << " block(s) still allocated after destruction\n"; ++fails; } else std::cout << "replay-ok: " << what << "\n"; };
   scenario("types, names, strings and a unit, then destruction", [] { impl::Lexicon lex; impl::Translation_unit u { lex };
      for (int k = 0; k < 40; ++k) (void)lex.get_pointer(lex.get_array(lex.int_type(), *lex.make_literal(lex.int_type(), std::u8string(1 + k % 7, char8_t(u8'a' + k % 26)))));
      (void)lex.get_identifier(u8"hello"); (void)u.global_region()->declare_var(lex.get_identifier(u8"x"), lex.int_type()); });
   scenario("first interned word longer than 64 KiB", [] { impl::Lexicon lex; std::u8string w(70000, u8'w'); (void)lex.get_string(w); (void)lex.get_string(u8"short"); });
   scenario("a word longer than one pool (1.1 MiB) between short ones", [] { impl::Lexicon lex; (void)lex.get_string(u8"a"); std::u8string w(1153433, u8'x'); auto& s = lex.get_string(w);
      if (s.characters().size() != w.size() || s.characters()[w.size() - 1] != u8'x') { std::cout << "REPLAY-FAIL: long word content\n"; ++fails; } (void)lex.get_string(u8"b"); });
   scenario("many words across several pools", [] { impl::Lexicon lex; for (int k = 0; k < 1300; ++k) { std::u8string w(1000, char8_t(u8'a' + k % 26)); w += std::u8string(1, char8_t(u8'A' + (k / 26) % 26)); w += std::u8string(1, char8_t(u8'A' + k / 676)); (void)lex.get_string(w); } });
   scenario("module with units", [] { impl::Lexicon lex; impl::Module m { lex }; (void)m.make_unit(); (void)m.make_unit(); });
   // nothing created for one Lexicon is handed out by a later one (storage is poisoned on release: a dangling node crashes or reads garbage)
   { { impl::Lexicon a; impl::Translation_unit ua { a }; (void)a.get_identifier(u8"first"); }
     impl::Lexicon b; impl::Translation_unit ub { b };
     const Namespace& ns = ub.global_namespace();
     auto* id = util::view<Identifier>(ns.name());
     CLAUSE(id != nullptr && id->string().characters().size() == 0, "a second Lexicon created after the first was destroyed names its global namespace with a live empty identifier");
   }
   return fails;
}

// ---- C18: printing terminates and leaves the stream and the printer as it found them
#include <sys/resource.h>
static int replay_C18(const Args& a)
{
   impl::Lexicon lex; impl::Translation_unit unit { lex };
   const Type& i = lex.int_type();
   bool sel = a.count("only") == 0;
   auto want = [&](const char* n) { return sel || a.at("only") == n; };
   auto print = [&](const Expr& e, std::string& out, std::ios_base::fmtflags& fl, int& ind) {
      std::ostringstream os; Printer pp { lex, os }; auto f0 = os.flags(); auto i0 = pp.indent();
      try { pp << xpr_expr(e); } catch (const std::logic_error&) { }
      out = os.str(); fl = os.flags() ^ f0; ind = pp.indent() - i0; };
   std::string out; std::ios_base::fmtflags fl; int ind;
   if (want("literal")) {
      const char8_t bytes[] = { u8'a', 1, u8'b', 2, 3, 0 };
      print(*lex.make_literal(i, bytes), out, fl, ind);
      CLAUSE(fl == std::ios_base::fmtflags{}, "printing a literal with control bytes leaves the stream's formatting flags untouched");
      std::ostringstream os; Printer pp { lex, os }; pp << xpr_expr(*lex.make_literal(i, bytes)); pp << Decl_position{10};
      CLAUSE(os.str().size() >= 2 && os.str().substr(os.str().size() - 2) == "10", "a number written after such a literal is decimal");
   }
   if (want("enclosure")) {
      for (auto d : { Delimiter::Nothing, Delimiter::Paren, Delimiter::Brace, Delimiter::Bracket, Delimiter::Angle }) {
         print(*lex.make_enclosure(d, *lex.make_literal(i, u8"1")), out, fl, ind);
         bool ctl = false; for (unsigned char ch : out) if (ch < 0x20 && ch != '\n') ctl = true;
         CLAUSE(!ctl, "an enclosure writes no NUL or other control byte");
      }
   }
   if (want("unsupported")) {
      struct rlimit rl { 8u << 20, 8u << 20 }; setrlimit(RLIMIT_STACK, &rl);
      auto* one = lex.make_literal(i, u8"1");
      const Expr* es[] = { lex.make_alignof(*one), lex.make_demotion(*one, i), lex.make_materialization(*one, i), lex.make_rewrite(*one, *one), lex.make_eclipsis(i),
                           lex.make_restriction(*one), lex.make_binary_fold(Category_code::Plus, *one, *one), lex.make_where(*one, *one), lex.make_requires(*unit.global_region(), Mapping_level{1}),
                           lex.make_lambda(*unit.global_region(), Mapping_level{1}),
                           lex.make_static_assert(*one, { }), lex.make_asm(lex.get_string(u8"nop")), lex.make_using_directive(unit.global_region()->bindings(), lex.namespace_type()), lex.make_pragma(),
                           lex.make_phased_evaluation(*one, Phases::Elaboration) };
      for (auto* e : es) { print(*e, out, fl, ind); CLAUSE(true, "printing an unsupported expression kind completes or raises std::logic_error"); }
      for (auto* e : es) { std::ostringstream os; Printer pp { lex, os }; try { pp << xpr_stmt(*e); } catch (const std::logic_error&) { } CLAUSE(true, "printing it as a statement completes or raises std::logic_error"); }
      const Type* ts[] = { &lex.get_decltype(*one), &lex.get_pointer(i), &lex.get_as_type(*one), &lex.get_qualified(lex.const_qualifier(), i), &lex.get_array(i, *one),
                           lex.make_class(*unit.global_region()), lex.make_union(*unit.global_region()), lex.make_enum(*unit.global_region(), Enum::Kind::Legacy), lex.make_namespace(*unit.global_region()), lex.make_closure(*unit.global_region()) };      // unnamed user-defined types included
      // ... and user-defined types named by the type-id of themselves (how an unnamed class or union is named)
      auto* anon_u = lex.make_union(*unit.global_region()); anon_u->id = *new impl::Type_id{ *anon_u };
      auto* anon_c = lex.make_class(*unit.global_region()); anon_c->id = *new impl::Type_id{ *anon_c };
      const Type* self_named[] = { anon_u, anon_c };
      for (auto* t : self_named) { std::ostringstream os; Printer pp { lex, os }; try { pp << xpr_type(*t); } catch (const std::logic_error&) { } CLAUSE(true, "printing a self-named user-defined type completes or raises std::logic_error"); }
      for (auto* t : ts) { std::ostringstream os; Printer pp { lex, os }; try { pp << xpr_type(*t); } catch (const std::logic_error&) { } CLAUSE(true, "printing a type completes or raises std::logic_error"); }
   }
   if (want("bytes")) {
      bool flags_ok = true, dec_ok = true;
      for (int b = 1; b < 256; ++b) {
         const char8_t bytes[] = { u8'a', char8_t(b), u8'z', 0 };
         std::ostringstream os; Printer pp { lex, os }; auto f0 = os.flags();
         pp << xpr_expr(*lex.make_literal(i, bytes)); pp << Decl_position{255}; pp << Mapping_level{4096};
         flags_ok = flags_ok && os.flags() == f0;
         auto s = os.str(); dec_ok = dec_ok && s.size() >= 7 && s.substr(s.size() - 7) == "2554096";
      }
      CLAUSE(flags_ok, "printing a literal containing any byte value leaves the stream's formatting flags untouched");
      CLAUSE(dec_ok, "numbers written after any such literal are decimal");
   }
   if (want("indentation")) {
      auto* one = lex.make_literal(i, u8"1"); auto& lbl = lex.get_label(lex.get_identifier(u8"again"));
      auto* es = lex.make_expr_stmt(*one);
      auto* w = lex.make_while(); w->control = one; w->stmt = es;
      auto* d = lex.make_do(); d->control = one; d->stmt = es;
      auto* f = lex.make_for(); f->init = one; f->cond = one; f->inc = one; f->stmt = es;
      auto* blk = lex.make_block(*unit.global_region()); blk->add_stmt(*es); blk->new_handler(lex.get_identifier(u8"e"), i)->body().add_stmt(*es);
      const Expr* ss[] = { es, lex.make_labeled_stmt(lbl, *es), lex.make_if(*one, *es), lex.make_if(*one, *es, *es), w, d, f, lex.make_return(*one), lex.make_goto(lbl), lex.make_break(), lex.make_continue(), blk,
                           lex.make_labeled_stmt(lbl, *lex.make_labeled_stmt(lbl, *blk)) };
      for (auto* st : ss) for (int start : { 0, 3, 9, 33, 66 }) {
         std::ostringstream os; Printer pp { lex, os }; pp.indent(start); int before = pp.indent();
         try { pp << xpr_stmt(*st); } catch (const std::logic_error&) { }
         bool ctl = false; for (unsigned char ch : os.str()) if (ch < 0x20 && ch != '\n') ctl = true;
         CLAUSE(pp.indent() == before && !ctl, "after a complete top-level statement the indentation is back where it started; no control byte written");
      }
   }
   return fails;
}

int main(int argc, char** argv)
{
   if (argc < 2) return 3;
   Args a; for (int i = 2; i < argc; ++i) { std::string s = argv[i]; auto e = s.find('='); if (e != std::string::npos) a[s.substr(0, e)] = s.substr(e + 1); }
   std::string f = argv[1];
   int n = -1;
   try {
      if (f == "C16") n = replay_C16(a);
      else if (f == "C08") n = replay_C08(a);
      else if (f == "C10") n = replay_C10(a);
      else if (f == "C03") n = replay_C03(a);
      else if (f == "C15") n = replay_C15(a);
      else if (f == "C11") n = replay_C11(a);
      else if (f == "C01" || f == "C04") n = replay_C01(a);
      else if (f == "C07") n = replay_C07(a);
      else if (f == "C06") n = replay_C06(a);
      else if (f == "C02") n = replay_C02(a);
      else if (f == "C05") n = replay_C05(a);
      else if (f == "C09") n = replay_C09(a);
      else if (f == "C14") n = replay_C14(a);
      else if (f == "C19") n = replay_C19(a);
      else if (f == "C13") n = replay_C13(a);
      else if (f == "C18") n = replay_C18(a);
      else if (f == "C12") n = replay_C12(a);
      else { std::cerr << "unknown replay family " << f << "\n"; return 3; }
   } catch (const std::exception& e) { std::cout << "REPLAY-EXCEPTION: " << e.what() << "\n"; return 4; }
   return n > 0 ? 1 : 0;
}
