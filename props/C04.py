"""C04: names and atoms are unified; a spelling has a single Identifier.  Generated like C01 (lib/gen.py)."""
import os
from ipv import Unit, Ob, VERIF
from gen import insert_stubs, harness_for, order_harness

NF, EF = 'ipr::impl::name_factory::', 'ipr::impl::expr_factory::'
AN = 'ipr::impl::(anonymous namespace)::'
SV = 'St17basic_string_viewIDuSt11char_traitsIDuEE'
G = dict(
    identifier=(NF + 'get_identifier', '=_ZN3ipr4impl12name_factory14get_identifierERKNS_6StringE'), identifier_w=(NF + 'get_identifier', '=_ZN3ipr4impl12name_factory14get_identifierE' + SV),
    operator_w=(NF + 'get_operator', '=_ZN3ipr4impl12name_factory12get_operatorE' + SV), suffix=(NF + 'get_suffix', None),
    operator=(NF + 'get_operator', '=_ZN3ipr4impl12name_factory12get_operatorERKNS_6StringE'), ctor_name=(NF + 'get_ctor_name', None), dtor_name=(NF + 'get_dtor_name', None),
    conversion=(NF + 'get_conversion', None), guide_name=(NF + 'get_guide_name', None), logogram=(NF + 'get_logogram', None),
    linkage=(EF + 'get_linkage', '=_ZN3ipr4impl12expr_factory11get_linkageERKNS_6StringE'), linkage_w=(EF + 'get_linkage', '=_ZN3ipr4impl12expr_factory11get_linkageE' + SV),
    calling_convention=(EF + 'get_calling_convention', None), symbol=(EF + 'get_symbol', None), label=(EF + 'get_label', None), this=(EF + 'get_this', None),
    literal=(EF + 'make_literal', '=_ZN3ipr4impl12expr_factory12make_literalERKNS_4TypeERKNS_6StringE'), template_id=(EF + 'make_template_id', None))


def two(fn, fac, kinds, what, extra_checks=(), order=True):
    K = dict(T=('type_t*', 'TY[pick(NPOOL)]'), E=('expr_t*', 'EX[pick(NPOOL)]'), N=('name_t*', 'NM[pick(NPOOL)]'), S=('string_t*', 'STRS(pick(NSTR))'), F=('string_t*', '(nondet_bool() ? S4 : S5)'),
             I=('ident_t*', 'ID[pick(NPOOL)]'), J=('ident_t*', '(nondet_bool() ? ID_DEFAULT : ID[pick(NPOOL)])'), M=('template_t*', 'TP[pick(NPOOL)]'), L=('elist_t*', 'EL[pick(NPOOL)]'), W=('int', 'pick(NSTR)'))
    arg = lambda p, i, k: ('WV[%s%d]' if k == 'W' else '%s%d') % (p, i)
    pre = ''.join('  %s a%d = %s; %s b%d = %s;\n' % (K[k][0], i, K[k][1], K[k][0], i, K[k][1]) for i, k in enumerate(kinds))
    opre = ''.join('  %s o0_%d = %s; %s o1_%d = %s; %s o2_%d = %s;\n' % (K[k][0], i, K[k][1], K[k][0], i, K[k][1], K[k][0], i, K[k][1]) for i, k in enumerate(kinds))
    d = dict(pre=pre, call1='@{G_%s}(%s, %s)' % (fn, fac, ', '.join(arg('a', i, k) for i, k in enumerate(kinds))), call2='@{G_%s}(%s, %s)' % (fn, fac, ', '.join(arg('b', i, k) for i, k in enumerate(kinds))),
             same=' && '.join('a%d == b%d' % (i, i) for i in range(len(kinds))), checks=list(extra_checks), what=what,
             claim='asking the %s constructor twice returns the very same node exactly for the same arguments' % what)
    if order:
        d['order'] = (opre, ['@{G_%s}(%s, %s)' % (fn, fac, ', '.join(arg('o%d_' % j, i, k) for i, k in enumerate(kinds))) for j in range(3)])
    return d


def specs():
    S = {}
    un = lambda what, v: [('(void*)@{vcall:%s}(&r1->__b0.__b1) == (void*)a0' % v, 'the %s reports the operand it was requested with' % what)]
    S['identifier'] = two('identifier', 'NFAC', 'S', 'identifier', un('identifier', 'unary_string_operand') + [
        ('a0 != S0 || r1 == IDENT_OF_WORD(R0)', 'the Identifier of a reserved spelling is the one and only reserved Identifier (the name of the built-in type / constant), not a look-alike')], order=False)
    S['identifier']['rw'] = ['int', 'C++', 'default', '@first', '@last', '@longest', '@shortest']
    S['identifier_order'] = two('identifier', 'NFAC', 'F', 'identifier (non-reserved spellings)')
    S['operator'] = two('operator', 'NFAC', 'F', 'operator name', un('operator name', 'unary_string_operand'))
    S['suffix'] = two('suffix', 'NFAC', 'I', 'literal-suffix name', un('suffix', 'unary_ident_operand'))
    S['ctor_name'] = two('ctor_name', 'NFAC', 'T', 'constructor name', un('constructor name', 'unary_type_operand'))
    S['dtor_name'] = two('dtor_name', 'NFAC', 'T', 'destructor name', un('destructor name', 'unary_type_operand'))
    S['conversion'] = two('conversion', 'NFAC', 'T', 'conversion-function name', un('conversion name', 'unary_type_operand'))
    S['guide_name'] = two('guide_name', 'NFAC', 'M', 'deduction-guide name', un('guide name', 'unary_template_operand'))
    S['logogram'] = two('logogram', 'NFAC', 'S', 'logogram', [
        ('a0 != S0 || r1 == LOGO_OF_WORD(R0)', 'the logogram of a reserved word is the reserved table entry'),
        ('a0 != S1 || r1 == &g__ZN3ipr4impl12_GLOBAL__N_114invisible_logoE.__b0', 'the logogram of the empty word is the invisible logogram'),
        ('@{vcall:unary_string_operand}(&r1->__b0) == a0', 'a logogram spells the String it was requested with')], order=False)
    S['logogram']['rw'] = ['int', 'C', '@longest', '@last']
    S['logogram_order'] = two('logogram', 'NFAC', 'F', 'logogram (non-reserved spellings)')
    S['linkage'] = two('linkage', 'FAC', 'S', 'linkage', [
        ('!(RW_IS_C && a0 == S0) || r1 == &g__ZN3ipr4impl12_GLOBAL__N_16c_linkE', 'the linkage spelled C is the C linkage constant'),
        ('!(RW_IS_CPP && a0 == S0) || r1 == &g__ZN3ipr4impl12_GLOBAL__N_18cxx_linkE', 'the linkage spelled C++ is the C++ linkage constant'),
        ('@{vcall:unary_string_operand}(&r1->f_lang->__b0) == a0', 'a linkage is spelled as requested')], order=False)
    S['linkage']['rw'] = ['C', 'C++', 'int']
    S['linkage_order'] = two('linkage', 'FAC', 'F', 'linkage (other spellings)')
    S['linkage_word'] = dict(pre='  int a0 = pick(NSTR); string_t* b0 = STRS(pick(NSTR));\n', call1='@{G_linkage_w}(FAC, WV[a0])', call2='@{G_linkage}(FAC, b0)', same='STRS(a0) == b0',
                             claim='a linkage asked by word is the linkage asked by the String of that word', what='linkage (by word)', rw=['C', 'C++', 'int'])
    S['calling_convention'] = two('calling_convention', 'FAC', 'W', 'calling convention', [('@{vcall:unary_string_operand}(&r1->f_conv->__b0) == STRS(a0)', 'a calling convention is spelled as requested')], order=False)
    S['calling_convention']['rw'] = ['int', 'C']
    S['symbol'] = two('symbol', 'FAC', 'NT', 'symbol', [('(void*)@{vcall:unary_name_operand}(&r1->__b0.__b1) == (void*)a0', 'a symbol reports the name it was requested with'),
                                                       ('@{symbol_type}((void*)r1) == a1', 'a symbol reports the type it was requested with')])
    S['label'] = two('label', 'FAC', 'J', 'label', [('a0 != ID_DEFAULT || (void*)r1 == (void*)&g__ZN3ipr4impl12_GLOBAL__N_111default_cstE', 'the label `default` is the default constant, not a look-alike')], order=False)
    S['this'] = two('this', 'FAC', 'T', '`this`', [('@{symbol_type}((void*)r1) == a0', '`this` has the type it was requested with')], order=False)
    S['symbol_then_label'] = dict(pre='  ident_t* b0 = ID[pick(NPOOL)]; name_t* a0 = nondet_bool() ? (name_t*)b0 : (name_t*)ID[pick(NPOOL)];      /* often the very identifier the label will be asked for */\n  type_t* a1 = TY[pick(NPOOL)];\n', call1='@{G_symbol}(FAC, a0, a1)', call2='@{G_label}(FAC, b0)',
        same='0', checks=[], post=[('@{symbol_type}((void*)r1) == a1', 'a symbol obtained earlier keeps the type it was requested with when a label is requested afterwards'),
                                   ('(void*)@{vcall:unary_name_operand}(&r1->__b0.__b1) == (void*)a0', 'a symbol obtained earlier keeps its name when a label is requested afterwards')],
        claim='a label is never the node of a symbol of another type requested earlier (symbols, labels and `this` share one table)', what='symbol, then label')
    S['symbol_void_then_label'] = dict(pre='  ident_t* b0 = nondet_bool() ? ID_DEFAULT : ID[pick(NPOOL)]; name_t* a0 = (name_t*)b0; type_t* a1 = (type_t*)@{void_type}(0);      /* the real type void: a label is a symbol of type void */\n',
        call1='@{G_symbol}(FAC, a0, a1)', call2='@{G_label}(FAC, b0)', same='b0 != ID_DEFAULT', checks=[],
        post=[('b0 != ID_DEFAULT || (void*)r2 == (void*)&g__ZN3ipr4impl12_GLOBAL__N_111default_cstE', 'the label `default` is the default constant even after a symbol (default, void) was requested')],
        claim='a label is the symbol (name, void), except `default`, whose label is the constant whatever was requested before', what='symbol of type void, then label')
    S['symbol_then_this'] = dict(pre='  name_t* a0 = NM[pick(NPOOL)]; type_t* a1 = TY[pick(NPOOL)]; type_t* b0 = TY[pick(NPOOL)];\n', call1='@{G_symbol}(FAC, a0, a1)', call2='@{G_this}(FAC, b0)',
        same='0', checks=[], post=[('@{symbol_type}((void*)r1) == a1', 'a symbol obtained earlier keeps its type when `this` is requested afterwards')],
        claim='`this` is never the node of an unrelated symbol requested earlier', what='symbol, then this')
    S['label_then_symbol'] = dict(pre='  ident_t* a0 = ID[pick(NPOOL)]; name_t* b0 = nondet_bool() ? (name_t*)a0 : (name_t*)ID[pick(NPOOL)]; type_t* b1 = TY[pick(NPOOL)];\n', call1='@{G_label}(FAC, a0)', call2='@{G_symbol}(FAC, b0, b1)',
        same='0', checks=[], post=[('@{symbol_type}((void*)r2) == b1', 'a symbol requested after a label has the type it was requested with')],
        claim='a symbol of a foreign type is never the node of a label requested earlier', what='label, then symbol')
    W = '  static unsigned char buf[1]; buf[0] = nondet_bool() ? 97 : 98; sv_t w; w.f__M_len = 1; w.f__M_str = buf; unsigned char first = buf[0];\n'
    for k, fn, acc in (('identifier_word', 'identifier_w', 'unary_string_operand'), ('operator_word', 'operator_w', 'unary_string_operand')):
        S[k] = dict(pre=W, call1='@{G_%s}(NFAC, w)' % fn, mid='  buf[0] = nondet_bool() ? 97 : 98;      /* the caller reuses its buffer for the next word */\n', call2='@{G_%s}(NFAC, w)' % fn, same='first == buf[0]',
                    checks=[('(void*)@{vcall:%s}(&r1->__b0.__b1) == (void*)(first == 97 ? S4 : S5)' % acc, 'the node is spelled by the String of the word given')],
                    post=[('(void*)@{vcall:%s}(&r2->__b0.__b1) == (void*)(buf[0] == 97 ? S4 : S5)' % acc, 'the second node is spelled by the word the buffer holds at the second request'),
                          ('(void*)@{vcall:%s}(&r1->__b0.__b1) == (void*)(first == 97 ? S4 : S5)' % acc, 'the first node keeps its spelling after the caller reused its buffer')],
                    claim='a name asked by word through a reused buffer is the name of the word the buffer holds at that request', what=k.replace('_', ' by ') + ' (reused buffer)')
    S['literal'] = two('literal', 'FAC', 'TF', 'literal')
    # two String NODES with one spelling (the constructors take any ipr::String, not only this Lexicon's own): still one name per spelling
    for fn, fac, what in (('identifier', 'NFAC', 'identifier'), ('operator', 'NFAC', 'operator name'), ('logogram', 'NFAC', 'logogram'), ('linkage', 'FAC', 'linkage')):
        S[fn + '_lookalike'] = dict(pre='  string_t* a0 = S4; string_t* b0 = nondet_bool() ? S6 : S5;\n', call1='@{G_%s}(%s, a0)' % (fn, fac), call2='@{G_%s}(%s, b0)' % (fn, fac),
                                    same='b0 == S6', checks=[], what=what + ', String nodes of equal spelling', claim='the %s of a spelling is one node, whichever String node carries the spelling' % what)
    S['template_id'] = two('template_id', 'FAC', 'EL', 'template-id')
    return S


def build(tier, seed):
    SP = specs()
    names = {'G_' + n: (f[0], f[1]) if f[1] else f[0] for n, f in G.items()}
    names.update(void_type='ipr::impl::Lexicon::void_type', get_string=NF + 'get_string', empty_string='ipr::String::empty_string', string_characters='ipr::String::characters', symbol_type='ipr::impl::Expr<ipr::Symbol>::type',
                 word_if_known=AN + 'word_if_known', known_word=AN + 'known_word',
                 unary_string_operand='ipr::Basic_unary<const ipr::String &>::operand', unary_ident_operand='ipr::Basic_unary<const ipr::Identifier &>::operand',
                 unary_type_operand='ipr::Basic_unary<const ipr::Type &>::operand', unary_template_operand='ipr::Basic_unary<const ipr::Template &>::operand',
                 unary_name_operand='ipr::Basic_unary<const ipr::Name &>::operand')
    vroots = [names[k] for k in ('unary_string_operand', 'unary_ident_operand', 'unary_type_operand', 'unary_template_operand', 'unary_name_operand')]
    u = Unit('names', '/repo/src/impl.cxx', roots=sorted(set(f[0] for f in G.values())) + [NF + 'get_string', 'ipr::String::empty_string', 'ipr::impl::Expr<ipr::Symbol>::type', 'ipr::impl::Lexicon::void_type'], vroots=vroots, names=names)
    def mkgen(rw):
        def gen(unit, rw=rw):
            if rw.startswith('@'):        # a word chosen by its place in the CURRENT table: first, last, longest, shortest entry
                unit.word_index('int'); ws = unit._words
                rw = dict(first=ws[0], last=ws[-1], longest=max(ws, key=len), shortest=min(ws, key=len))[rw[1:]]
            stubs, skipped, info = insert_stubs(unit, no_ctor_key=['get_symbol'])
            head = '#define RW_INDEX @{word:%s}\n#define RW_IS_C %d\n#define RW_IS_CPP %d\nstatic unsigned char sp_rw[%d] = { %s };\n' % (rw, rw == 'C', rw == 'C++', len(rw), ', '.join(str(ord(c)) for c in rw))
            text = head + open(os.path.join(VERIF, 'harness/C04/lib.h')).read() + stubs
            text += ''.join(harness_for(n, s, unit, info, prop='C04') for n, s in SP.items()) + ''.join(order_harness(n, s) for n, s in SP.items() if 'order' in s)
            return text, skipped + [unit.resolve_text('@{get_string}'), unit.resolve_text('@{word_if_known}'), unit.resolve_text('@{known_word}')], info
        return gen
    obs = []
    for n, s in SP.items():
        for rw in s.get('rw', ['int']):
            suffix = ('.' + {'C++': 'Cpp'}.get(rw, rw).replace('@', '')) if 'rw' in s else ''
            o = Ob('C04.get.' + n + suffix, u, None, 'h_' + n, 'two requests (%s) from symbolic operand pools incl. the reserved spelling `%s`, the empty word and two other words: same request <=> same node; constants for reserved spellings' % (s['what'], rw),
                   kind='K1', replay='C04', timeout=1200, flags=['--unwind', '65'], objbits=12)
            o.gen = mkgen(rw); obs.append(o)
        if 'order' in s:
            o = Ob('C04.order.' + n, u, None, 'h_order_' + n, 'CMP-ORDER for the table of the %s constructor (three symbolic requests)' % s['what'], kind='K3', replay='C04', timeout=1200, flags=['--unwind', '65'], objbits=12)
            o.gen = mkgen('int'); obs.append(o)
    meta = dict(sweep_family='C04', functions_under_contract=sorted(names), assumptions=[
        'rb_tree::container<T>::insert through its contract (generated per instantiation; established by C08 modulo L-tree / L-order)',
        'get_string (interning) through its contract: the String node of that spelling (C03); foreign Strings are spelled a / b, one node per spelling',
        'word_if_known (reserved-word lookup) through its contract, proved on the real code by obligation C03.word_if_known',
        'u8string_view comparisons = bytewise lexicographic; std::less<> = value / address order'])
    # the contracts assumed above are established on the real code by C03 (interning, reserved-word lookup, the arena that keeps
    # published spellings intact) and C08 (the tables): their obligations are run here too, so that a change that breaks the
    # one-Identifier-per-spelling guarantee underneath the name constructors is reported by this check as well
    import C03, C08
    u3, o3, m3 = C03.build(tier, seed)
    for o in o3:
        o.id = 'C04.strings.' + o.id.split('.', 1)[1]
    u8, o8, m8 = C08.build(tier, seed)
    o8 = [o for o in o8 if o.kind != 'K5' and '.K2.descent.' not in o.id]
    for o in o8:
        o.stand_in = None      # no bounded stand-in here: a loop VC that no longer fits is left undecided in this check
    for o in o8:
        o.id = 'C04.tables.' + o.id.split('.', 1)[1]
    meta['assumptions'] += [a for a in m3['assumptions'] if a not in meta['assumptions']]
    return [u] + u3 + u8, obs + o3 + o8, meta
