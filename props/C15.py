import os, re
from ipv import Unit, Ob, VERIF
from factories import ext_models

WRAPPERS = """seq_empty seq_begin seq_end seq_position it_deref it_arrow it_preinc it_predec it_postinc it_postdec it_eq it_ne
 product_size product_at sum_size sum_at expr_list_size scope_size scope_begin scope_end plist_size plist_begin plist_end
 class_scope class_members union_members namespace_members enum_scope block_body block_try template_parameters template_result
 parameter_default type_linkage transfer_linkage transfer_convention logo_eq logo_ne cc_eq cc_ne link_eq link_ne xfer_eq xfer_ne bspec_eq bspec_ne bqual_eq bqual_ne string_eq string_ne""".split()

def build(tier, seed):
    names = {w: 'drv::' + w for w in WRAPPERS}
    names.update(  # virtual primitives (foreign objects): method qualified name [+ substring of its mangled name]
        seqE_size='ipr::Sequence<ipr::Expr>::size', seqE_get='ipr::Sequence<ipr::Expr>::get', seqT_size='ipr::Sequence<ipr::Type>::size', seqT_get='ipr::Sequence<ipr::Type>::get',
        seqD_size='ipr::Sequence<ipr::Decl>::size', seqP_size='ipr::Sequence<ipr::Parameter>::size', seqH_size='ipr::Sequence<ipr::Handler>::size',
        unary_seqT_operand='ipr::Basic_unary<const ipr::Sequence<ipr::Type> &>::operand', unary_seqE_operand='ipr::Basic_unary<const ipr::Sequence<ipr::Expr> &>::operand',
        scope_elements='ipr::Scope::elements', plist_elements='ipr::Parameter_list::elements', udtD_region='ipr::Udt<ipr::Decl>::region', udtE_region='ipr::Udt<ipr::Enumerator>::region',
        region_bindings='ipr::Region::bindings', region_body='ipr::Region::body', block_region='ipr::Block::region', block_handlers='ipr::Block::handlers',
        template_mapping='ipr::Template::mapping', mapping_parameters='ipr::Parameterization<ipr::Expr>::parameters', mapping_result='ipr::Parameterization<ipr::Expr>::result',
        decl_initializer='ipr::Decl::initializer', type_transfer='ipr::Type::transfer',
        transfer_first='ipr::Basic_binary<const ipr::Linkage &, const ipr::Calling_convention &>::first', transfer_second='ipr::Basic_binary<const ipr::Linkage &, const ipr::Calling_convention &>::second',
        logo_operand='ipr::Basic_unary<const ipr::String &>::operand')
    u = Unit('derived', 'drivers/derived.cxx', prefixes=['drv::'], names=names)
    H = 'C15/derived.c'
    obs = [
        Ob('C15.sequence', u, H, 'h_sequence', 'Sequence: empty/begin/end/position and the iterator laws (* -> ++ -- == !=) against size()/get(i), size and index symbolic', kind='K1', replay='C15'),
        Ob('C15.product_sum', u, H, 'h_product_sum', 'Product/Sum size and operator[], Expr_list size against their element sequence', kind='K1', replay='C15'),
        Ob('C15.scope_plist', u, H, 'h_scope_plist', 'Scope and Parameter_list size/begin/end against elements()', kind='K1', replay='C15'),
        Ob('C15.udt', u, H, 'h_udt', 'Class/Union/Namespace/Enum: scope() = region().bindings(), members() = scope().elements()', kind='K1', replay='C15'),
        Ob('C15.block', u, H, 'h_block', 'Block: body() = region().body(); try_block() true exactly when handlers().size() > 0', kind='K1', replay='C15'),
        Ob('C15.misc', u, H, 'h_misc', 'Template parameters/result = mapping; Parameter default_value = initializer; Type linkage = transfer linkage; Transfer linkage/convention = first/second', kind='K1', replay='C15'),
        Ob('C15.equality', u, H, 'h_equality', 'equality on logograms, conventions, linkages, transfers, basic specifiers/qualifiers, strings: equivalence, true exactly for equal spellings (three symbolic values)', kind='K1', flags=['--unwind', '4'], replay='C15'),
    ]
    def gen(unit):
        # primitives the helpers are not expected to call get the generic model of a foreign node's accessor (an arbitrary function of
        # the receiver), so that a helper redefined through another primitive is decided against its definition instead of left undecided
        text = open(os.path.join(VERIF, 'harness', H)).read()
        mine = set(unit.resolve_text('@{virt:%s}' % k) for k in re.findall(r'@\{virt:(\w+)\}', text))
        return text + '\n#ifndef NEWZ\n#define NEWZ(T) ((T*)__CPROVER_allocate(sizeof(T), 1))\n#endif\n' + ext_models(unit, skip=mine), [], []
    for o in obs:
        o.gen = gen
    meta = dict(sweep_family='C15', functions_under_contract=WRAPPERS, assumptions=[
        'the inline helpers are class-template members: proved at Sequence<Expr> (Decl, Parameter for scopes and parameter lists); other instantiations have the same body',
        'primitive accessors of foreign nodes are arbitrary functions of the receiver (finite look-up models in harness/C15/derived.c)'])
    return [u], obs, meta
