"""C12: regions form a tree rooted at the global region; owners and positions are right.  One obligation per region-opening
construct (drivers/regions.cxx holds the oracle, written from the property text): the real constructors and factories are lowered
and run from a REAL root region; every clause of the property that applies to the construct is one named assertion."""
import os, re
import ipv, factories as F
from ipv import Unit, Ob, VERIF

UDT = ['the region is enclosed by the region it was created in', 'the region names the entity as its owner', 'a region with a parent does not report itself global']
PARM = ['the parameter region is enclosed by the region given', 'the parameter region names the construct as its owner', 'the parameter list reports the nesting level given',
        'parameters report their zero-based position', 'parameters report the nesting level of their list (any level, also beyond 16 bits)', 'parameters report the parameter region as their home region',
        'the list holds the parameters in entry order', 'parameters report their name and type']
UNIT = ['the unit\'s root region reports itself global', 'the root region names the global namespace as its owner', 'the global namespace is unnamed (empty identifier)', 'the global namespace is typed `namespace`']
CLAUSES = dict(
    subregion=['the root region reports itself global', 'a subregion is enclosed by the region it was created in', 'only the root reports itself global', 'walking outward reaches the root in finitely many steps', 'subregions are distinct regions'],
    **{'class': UDT, 'union': UDT, 'namespace': UDT, 'closure': UDT, 'enum': UDT, 'block': UDT},
    handler=['a handler body\'s region names the body as its owner', 'a handler\'s body is enclosed by a region binding exactly its exception parameter', 'that region is enclosed by the region that encloses the guarded block',
             '(reserved)', 'walking outward from the handler body reaches the root', 'the exception parameter reports its name and type'],
    mapping=PARM, **{'lambda': PARM}, requires=PARM,
    where=['the region of a where-expression is enclosed by the region given'],
    enumerators=['enumerators report their zero-based position', 'enumerators report the enumeration\'s region as home region', 'the enumeration lists its enumerators in entry order', 'enumerators report their name'],
    bases=['bases report their zero-based position', 'bases report as home region the region that binds exactly the bases, in order', 'the class lists its bases in entry order', 'bases report their type'],
    translation_unit=UNIT,
    module_units=UNIT + ['the interface unit links back to its module', 'an implementation unit links back to its module', 'the module lists its implementation units', 'walking outward from an implementation unit\'s regions ends at that unit\'s own global region',
                         'implementation unit: root region global', 'implementation unit: root region owned by its global namespace', 'implementation unit: global namespace unnamed', 'implementation unit: global namespace typed `namespace`'],
)
STUBS = r'''
#include "svmodel.h"
/* units ask the Lexicon for the identifier spelled "" (their global namespace's name): interning and the reserved-word lookup are
   used through their contracts (C03): the empty word is the process-wide empty String and is not reserved */
struct S_ZTSN3ipr6StringE* @{get_string}(struct S_ZTSN3ipr4impl12name_factoryE* self, sv_t w) { __CPROVER_assert(w.f__M_len == 0, "get_string of a word other than the empty one"); return @{empty_string}(); }
struct S_ZTSN3ipr4impl12_GLOBAL__N_114std_identifierE* @{word_if_known}(sv_t w) { __CPROVER_assert(w.f__M_len == 0, "word_if_known of a word other than the empty one"); return 0; }
'''


CLAUSES['handler_ellipsis'] = CLAUSES['handler']; CLAUSES['handler_builtin'] = CLAUSES['handler']


def build(tier, seed):
    if '-I' + os.path.join(VERIF, 'drivers') not in ipv.CLANG_ARGS:
        ipv.CLANG_ARGS.append('-I' + os.path.join(VERIF, 'drivers'))
    names = {'r_' + k: 'drv::r_' + k for k in CLAUSES}
    names.update(get_string='ipr::impl::name_factory::get_string', word_if_known='ipr::impl::(anonymous namespace)::word_if_known', empty_string='ipr::String::empty_string')
    u = Unit('regions', 'drivers/regions.cxx', roots=sorted(v for k, v in names.items() if k.startswith('r_')), names=names)
    obs = []
    def mkgen(k):
        def gen(unit):
            fn = unit.by_name[unit.resolve_name('r_' + k)]
            ret, cname, cps = F.cparams(fn['sig'])
            units = k in ('translation_unit', 'module_units')
            t = F.PRELUDE_C + (STUBS if units else '') + F.ext_models(unit) + 'void h_%s(void)\n{\n' % k
            args = []
            for i, (ct, pn) in enumerate(cps):
                if pn == 'v_kind' and ct == 'int':
                    t += '  int v_kind; { int t_k; v_kind = t_k; } __CPROVER_assume(0 <= v_kind && v_kind <= 5);      /* which kind of region the construct is created in */\n'
                else:
                    t += ('  %s %s = NEWZ(%s);      /* a freshly constructed Lexicon */\n' % (ct, pn, ct[:-1].strip())) if i == 0 and 'Lexicon' in ct else F.operand_decl(ct, pn, i)
                args.append(pn)
            t += '  unsigned bad = %s(%s);\n' % (cname, ', '.join(args))
            cl = CLAUSES[k]
            if k == 'module_units':      # bits 0-7 as listed; bits 8-11 are the unit clauses of the implementation unit
                bits = list(range(8)) + [8, 9, 10, 11]
            else:
                bits = list(range(len(cl)))
            for b, text_ in zip(bits, cl):
                t += '  __CPROVER_assert(!(bad & %du), "C12 %s: %s");\n' % (1 << b, k.replace('_', ' '), text_.replace('"', "'"))
            t += '  IPR_CANARY_POINT();\n}\n'
            return t, ([unit.resolve_text('@{get_string}'), unit.resolve_text('@{word_if_known}')] if units else []), dict(construct=k)
        return gen
    for k in CLAUSES:
        o = Ob('C12.' + k, u, None, 'h_' + k, 'region tree, owner and position clauses for: ' + k.replace('_', ' '), kind='K1', replay='C12', timeout=600, flags=['--unwind', '12'], objbits=12)
        o.gen = mkgen(k); obs.append(o)
    meta = dict(sweep_family='C12', functions_under_contract=sorted(v for k, v in names.items() if k.startswith('r_')), constructs=len(CLAUSES),
                assumptions=['L-creation (DESIGN.md 5.3): a parent link set at construction to a region that already exists and never reassigned cannot lie on a cycle; depth of the walks checked here is <= 3',
                             'std::forward_list / std::vector / std::deque sequence models; operator new returns fresh storage',
                             'units: interning of the empty word and the reserved-word lookup through their contracts (C03)'])
    return [u], obs, meta
