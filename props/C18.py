"""C18: printing terminates and leaves the stream and the printer as it found them (state clauses proved per function; termination by
   the native sweep).  Each printer function that moves indentation or writes bytes itself is run on the lowered real code with
   every sub-print replaced by the common contract (indentation and stream state left as found) that each of them is in turn
   proved to satisfy -- partial-correctness induction over the printer's recursion."""
import os
import ipv, factories as F
from ipv import Unit, Ob, Undecided, VERIF

STMTS = 'expr_stmt labeled_stmt if return switch while do for for_in break continue goto handler'.split()
OTHER = 'literal enclosure numbers newline newline_and_indent'.split()
ALLOWED_STD = {'std::operator<<', 'std::basic_ostream<char>::operator<<', 'std::copy', 'std::basic_string_view<char8_t>::begin', 'std::basic_string_view<char8_t>::end', 'std::char_traits<char8_t>::length'}


def build(tier, seed):
    if '-I' + os.path.join(VERIF, 'drivers') not in ipv.CLANG_ARGS:
        ipv.CLANG_ARGS.append('-I' + os.path.join(VERIF, 'drivers'))
    names = {'pr_' + k: 'drv::pr_' + k for k in STMTS + OTHER}
    names.update(print_expr=('ipr::operator<<', '8xpr_expr'), print_stmt=('ipr::operator<<', '8xpr_stmt'), print_decl=('ipr::operator<<', '8xpr_decl'), print_newline=('ipr::operator<<', '7newlineE'),
                 literal_second='ipr::Basic_binary<const ipr::Type &, const ipr::String &>::second', string_characters='ipr::String::characters', enclosure_delimiters='ipr::Enclosure::delimiters')
    u = Unit('printer', 'drivers/printer.cxx', roots=sorted(v for k, v in names.items() if k.startswith('pr_')), vroots=[names['literal_second'], names['string_characters'], names['enclosure_delimiters']], names=names)
    u.std = dict(os_char=('std::operator<<', 'signed char a1'), os_cstr=('std::operator<<', 'signed char *a1'), os_ulong=('std::basic_ostream<char>::operator<<', 'unsigned long a1'),
                 os_copy=('std::copy', 'ostream_iterator'), sv_begin=('std::basic_string_view<char8_t>::begin',), sv_end=('std::basic_string_view<char8_t>::end',))
    work = os.path.join(ipv.BUILD, 'gen', 'C18'); os.makedirs(work, exist_ok=True)
    try:
        u.lower(os.path.join(work, 'lowered'))
    except Undecided as e:
        # the changed printer uses a construct outside the lowering's subset (e.g. a stream manipulator passed as a function pointer):
        # no obligation can be generated; the native sweep decides
        meta = dict(sweep_family='C18', always_sweep=True, undecided_build='the printer functions cannot be lowered: ' + str(e)[-300:], functions_under_contract=[], assumptions=[])
        return [], [], meta
    extra = sorted(set(s['qualified'] for s in u.json['std_stubs']) - ALLOWED_STD)
    if extra:
        # K6: the printer touches its stream through something other than character / string / unsigned insertion (a manipulator, a
        # flag setter, ...): the stream model has no contract for it, so nothing proved here would mean anything -> undecided; the
        # native sweep (always run for this property) then checks flags and decimal output on the real code
        raise_later = 'the printer functions call standard-library operations outside the stream model\'s allow-list: %s' % extra
    else:
        raise_later = None
    def gen(unit, real_newline=False):
        head = '#include "svmodel.h"\n'
        def tyof(sel):
            fn = unit.by_name[unit.resolve_name(sel)]
            return F.cparams(fn['sig'])[2][1][0]
        text = open(os.path.join(VERIF, 'harness/C18/printer.c')).read()
        for k in ('xpr_expr', 'xpr_stmt', 'xpr_decl'):
            text = text.replace('__typeof__(@{%s_t})' % k, tyof('print_' + k.split('_')[1]))
        text = text.replace('__typeof__(@{newline_t})', tyof('print_newline'))
        T = dict(expr_stmt='9Expr_stmt', labeled_stmt='12Labeled_stmt', **{'if': '2If', 'return': '6Return', 'switch': '6Switch', 'while': '5While', 'do': '2Do', 'for': '3For', 'for_in': '6For_in', 'break': '5Break', 'continue': '8Continue', 'goto': '4Goto'}, handler='7Handler')
        st = ''
        for k in STMTS:
            st += ('void h_%s(void) { printer_t* pp = printer(0, 1000); struct S_ZTSN3ipr%sE* s = NEWZ(struct S_ZTSN3ipr%sE); int d = @{pr_%s}(pp, s);\n' % (k, T[k], T[k], k)
                   + '  __CPROVER_assert(d == 0, "C18: after a complete %s statement the printer\'s indentation is back where it started");\n' % k.replace('_', ' ')
                   + '  __CPROVER_assert(CONTROL == 0, "C18: no NUL or other control byte except newline is written");\n  __CPROVER_assert(OS_BASE == 10, "C18: the stream\'s formatting flags are left untouched"); IPR_CANARY_POINT(); }\n')
        text = text.replace('/*STMTS*/', st)
        skips = [unit.resolve_text('@{print_expr}'), unit.resolve_text('@{print_stmt}'), unit.resolve_text('@{print_decl}')]
        own = [unit.resolve_text('@{virt:%s}' % k) for k in ('literal_second', 'string_characters', 'enclosure_delimiters')]
        if not real_newline:
            skips.append(unit.resolve_text('@{print_newline}'))
        else:
            text = text.replace('printer_t* @{print_newline}', 'printer_t* unused_newline_contract')
        return head + F.PRELUDE_C + F.ext_models(unit, skip=own) + text, skips, {}
    obs = []
    for k in STMTS + OTHER:
        what = ('the real visitor of a %s statement on an arbitrary node, any starting indentation >= 0: indentation restored, no control byte, stream state untouched; sub-prints through the common contract' % k.replace('_', ' ')) if k in STMTS else \
               dict(literal='the literal escaper on a spelling of <= 3 arbitrary bytes: no control byte that is not in the spelling, no number formatting touched', enclosure='enclosure delimiters for all five delimiter kinds: exactly the two delimiters, nothing for Delimiter::Nothing',
                    numbers='nesting levels and positions are inserted as numbers with the stream in decimal mode', newline='a line break: newline plus one space per indentation level (levels <= 6), flag cleared', newline_and_indent='newline_and_indent(+-3) moves the indentation by exactly that')[k]
        o = Ob('C18.' + k, u, None, 'h_' + k, what, kind='K1', replay='C18', timeout=600, flags=['--unwind', '18'], objbits=12)
        if k in ('newline',):
            o.kind, o.bounded = 'K5', 'indentation levels <= 6'
        if k in ('newline', 'newline_and_indent'):      # these run the REAL line-break code; every other obligation uses its contract
            o.gen = lambda unit, g=gen: g(unit, real_newline=True)      # (a parameter, not shared state: obligations are generated in parallel)
        else:
            o.gen = gen
        obs.append(o)
    meta = dict(sweep_family='C18', always_sweep=True, undecided_build=raise_later, functions_under_contract=sorted(v for k, v in names.items() if k.startswith('pr_')),
                assumptions=['std::ostream model: (formatting flags, bytes); character / string / unsigned insertion and ostream_iterator copy are the only stream operations the lowered printer functions call (allow-list checked when the unit is built)',
                             'sub-prints (xpr_expr, xpr_stmt, xpr_decl of an operand) are replaced by the common contract -- indentation and stream state left as found -- which every function under contract here is proved to satisfy (partial-correctness induction over the recursion); functions not under contract: the expression precedence tower, types, declarations, blocks with member sequences',
                             'TERMINATION (no unbounded recursion for unsupported constructs) is not decided by a contract: the native sweep, run on every check, prints every expression kind the factories build plus control-byte literals and all delimiters under a stack limit'])
    return [u], obs, meta
