from ipv import Unit, Ob

A = 'ipr::util::string::arena::'

def build(tier, seed):
    ar = Unit('arena', '/repo/src/utility.cxx', prefixes=['ipr::util::string::'],
              names=dict(allocate=A + 'allocate', make_string=A + 'make_string', arena_ctor=A + 'arena', arena_dtor=A + '~arena',
                         string_index='ipr::util::string::operator[]', remaining=A + 'remaining_header_count'))
    ar.std = dict(std_copy=('std::copy', 'PKDu'))
    obs = [
        Ob('C03.arena.allocate', ar, 'C03/arena.c', 'h_allocate',
           'allocate(n), n symbolic in [0, 2^40]: block large enough and writable, carved from the free space or from a pool that did not exist before; arena well formed again; frame = {mem, next_header, current pool\'s previous}',
           kind='K1', enforce='@{allocate}', contracts=['arena.h'], replay='C03', timeout=900),
        Ob('C03.arena.make_string', ar, 'C03/arena.c', 'h_make_string',
           'make_string(s, n): length n, every character copied (ghost index), no byte of an earlier word altered; allocate used through its proved contract (restated as a stub), std::copy through its assumed contract; writes outside the block fail the pointer checks',
           kind='K1', contracts=['arena.h'], defines=['WITH_COPY'], replay='C03', timeout=900),
        Ob('C03.arena.ctor', ar, 'C03/arena.c', 'h_ctor', 'arena constructor establishes the representation invariant', kind='K1', contracts=['arena.h'], replay='C03'),
        Ob('C03.string.index', ar, 'C03/arena.c', 'h_index', 'util::string::operator[]: in range -> that character, out of range -> std::domain_error', kind='K1', contracts=['arena.h'], replay='C03'),
    ]
    obs[0].heavy = True; obs[1].skip = ['@{allocate}']
    AN = 'ipr::impl::(anonymous namespace)::'
    it = Unit('intern', '/repo/src/impl.cxx', roots=['ipr::util::string_pool::intern', AN + 'word_if_known', AN + 'known_word'],
              names=dict(intern='ipr::util::string_pool::intern', word_if_known=AN + 'word_if_known', known_word=AN + 'known_word', empty_string='ipr::String::empty_string',
                         make_string=A + 'make_string',
                         word_lt_call=(AN + '(anonymous class)::operator()', 'std_identifier'),
                         eq_call=('ipr::util::string_pool::intern(ipr::util::word_view)::(anonymous class)::operator()', 'String')))
    it.std = dict(lower_bound=('std::lower_bound', 'std_identifier'), hash=('std::hash<std::basic_string_view<char8_t>>::operator()',),
                  map_index=('std::map<ipr::util::hash_code, std::forward_list<ipr::impl::String>>::operator[]',),
                  fl_begin=('std::forward_list<ipr::impl::String>::begin',), fl_end=('std::forward_list<ipr::impl::String>::end',),
                  it_eq=('std::operator==', '_Fwd_list_iterator'), it_deref=('std::_Fwd_list_iterator<ipr::impl::String>::operator*',),
                  find_if=('std::find_if', 'string_pool'), fl_empty=('std::forward_list<ipr::impl::String>::empty',))
    # models of library functions the lookup may or may not go through (a changed intern that scans its bucket differently still gets a decided run)
    it.optional = {'find_if', 'fl_begin', 'fl_end', 'it_eq', 'it_deref', 'eq_call', 'fl_empty'}
    obs += [
        Ob('C03.word_if_known', it, 'C03/intern.c', 'h_word_if_known', 'reserved-word lookup for a symbolic word (length <= 24, arbitrary bytes): hit iff the spelling is in the table, and then that entry',
           kind='K1', flags=['--unwind', '72'], replay='C03', timeout=1800),
        Ob('C03.intern', it, 'C03/intern.c', 'h_intern', 'intern from an arbitrary bucket state (<= %d earlier words, arbitrary contents)' % (2 if tier == 'quick' else 4) + ': empty / reserved / already interned anywhere in the bucket / new word',
           kind='K1', flags=['--unwind', '72'], replay='C03', timeout=1800 if tier == 'quick' else 3600, bounded=None, defines=([] if tier == 'quick' else ['NB=5'])),
    ]
    obs[-1].heavy = obs[-2].heavy = True
    kw = Ob('C03.known_word', it, 'C03/intern.c', 'h_known_word', 'known_word(s), s a symbolic NUL-terminated spelling (<= 24 bytes): the table entry with that spelling, std::domain_error otherwise; word_if_known through its proved contract',
            kind='K1', flags=['--unwind', '72'], defines=['WITH_KNOWN_WORD'], replay='C03', timeout=900)
    kw.skip = ['@{word_if_known}']; obs.append(kw)
    meta = dict(sweep_family='C03', functions_under_contract=['allocate', 'make_string', 'arena_ctor', 'string_index'],
                assumptions=['operator new returns a fresh object of the requested size (never null)',
                             'std::copy on char8_t ranges copies [first,last) to out and writes nothing else (ghost-index contract in harness/C03/arena.c)',
                             'word lengths up to 2^40 bytes'])
    meta['assumptions'] += ['u8string_view comparison = bytewise lexicographic (harness/svmodel.h), words of length <= 24 bytes in the intern obligations (reserved words are <= 18 bytes)',
        'std::hash is some function of the bytes; std::map::operator[] yields the bucket of that hash; bucket holds <= %d earlier words (K5-style bound on chain length, reasoning is uniform per element)' % (2 if tier == 'quick' else 4),
        'std::find_if / std::lower_bound: linear-scan specifications that call the real lowered predicates; forward_list nodes never move']
    return [ar, it], obs, meta
