import os, re
from ipv import Unit, Ob, VERIF
from factories import ext_models

SPEC_ACC = 'export static extern mutable thread_local register inline consteval constexpr virtual abstract explicit friend typedef public protected private'.split()
QUAL_ACC = 'const volatile restrict'.split()

def build(tier, seed):
    L = 'ipr::impl::Lexicon::'
    names = {a + '_specifier': L + a + '_specifier' for a in SPEC_ACC}
    names.update({a + '_qualifier': L + a + '_qualifier' for a in QUAL_ACC})
    names.update(specifiers=L + 'specifiers', qualifiers=L + 'qualifiers',
                 decompose_spec=(L + 'decompose', 'Specifiers'), decompose_qual=(L + 'decompose', 'Qualifiers'))
    u = Unit('basis', '/repo/src/impl.cxx', roots=[L + a + '_specifier' for a in SPEC_ACC] + [L + a + '_qualifier' for a in QUAL_ACC]
             + [L + 'specifiers', L + 'qualifiers', L + 'decompose'], names=names)
    u.std = dict(spec_push_back='__std__ZNSt6vectorIN3ipr15Basic_specifierESaIS1_EE9push_backERKS1_',
                 qual_push_back='__std__ZNSt6vectorIN3ipr15Basic_qualifierESaIS1_EE9push_backERKS1_')
    a = Unit('algebra', 'drivers/algebra.cxx', prefixes=['drv::'],
             names={p + '_' + o: 'drv::' + p + '_' + o for p in 'sq' for o in ('or', 'and', 'xor', 'or_eq', 'and_eq', 'xor_eq', 'implies')})
    obs = [
        Ob('C10.algebra.specifiers', a, 'C10/algebra.c', 'h_s', '| & ^ |= &= ^= implies on Specifiers are the set operations (all 2^64 x 2^64 pairs, symbolic element)', kind='K1', replay='C10'),
        Ob('C10.algebra.qualifiers', a, 'C10/algebra.c', 'h_q', '| & ^ |= &= ^= implies on Qualifiers are the set operations', kind='K1', replay='C10'),
        Ob('C10.map.specifiers', u, 'C10/basis.c', 'h_spec_map', 'each basic specifier maps to a distinct, non-empty, pairwise disjoint set (symbolic pair of table entries)', kind='K1', flags=['--unwind', '20'], replay='C10'),
        Ob('C10.map.qualifiers', u, 'C10/basis.c', 'h_qual_map', 'each basic qualifier maps to a distinct, non-empty, pairwise disjoint set', kind='K1', flags=['--unwind', '20'], replay='C10'),
        Ob('C10.unknown', u, 'C10/basis.c', 'h_unknown', 'a logogram that is not a basic name is refused (normal return is unreachable)', kind='K1', flags=['--unwind', '72'], replay='C10'),
        Ob('C10.unknown.reach', u, 'C10/basis.c', 'h_unknown_canary', 'vacuity guard of C10.unknown: known names do return', kind='K1', flags=['--unwind', '20'], replay='C10'),
        Ob('C10.accessors', u, 'C10/basis.c', 'h_accessors', 'each of the 20 named accessors equals the mapping of its own name (name found by spelling in the constant table)', kind='K1', flags=['--unwind', '57'], replay='C10', timeout=1200),
        Ob('C10.decompose.specifiers', u, 'C10/basis.c', 'h_spec_decompose', 'for every subset of the 18 basic specifiers (symbolic mask, all 2^18 at once) decompose(union) is exactly the subset', kind='K1', flags=['--unwind', '20'], replay='C10', timeout=1200),
        Ob('C10.decompose.any', u, 'C10/basis.c', 'h_spec_decompose_any', 'decompose of an arbitrary 64-bit value: an element is listed once iff its set is included; nothing invented', kind='K1', flags=['--unwind', '20'], replay='C10', timeout=1200),
        Ob('C10.decompose.qualifiers', u, 'C10/basis.c', 'h_qual_decompose', 'for every subset of the 3 basic qualifiers plus arbitrary foreign bits, decompose is exactly the subset', kind='K1', flags=['--unwind', '20'], replay='C10'),
    ]
    def gen(unit):
        # a logogram that is not a table entry is a foreign node: whatever the lookup asks of it is answered by the generic model of a
        # foreign accessor, and its spelling -- should the lookup go by spelling -- is a view of exactly its own bytes (no terminator)
        text = open(os.path.join(VERIF, 'harness/C10/basis.c')).read()
        own = []
        for v in unit.json['virtual_stubs']:
            if v['method'] == 'ipr::String::characters':
                own.append(v['name'] + '__ext')
                text += ('\nstatic unsigned char* FS_BUF; static unsigned long FS_LEN;\n%s %s__ext(%s)\n{ if (FS_BUF == 0) { FS_LEN = nondet_ulong(); __CPROVER_assume(1 <= FS_LEN && FS_LEN <= 9); FS_BUF = __CPROVER_allocate(FS_LEN, 0);\n    for (int k = 0; k < NWORD; k++) __CPROVER_assume(FS_BUF[0] != WORDS[k].f_str.f_txt.f__M_str[0]);      /* not the spelling of any reserved word, hence of no basic name */ }\n'
                         '  %s v; __builtin_memset(&v, 0, sizeof v); v.f__M_len = FS_LEN; v.f__M_str = FS_BUF; return v; }\n' % (v['ret'], v['name'], v['params'], v['ret']))
        return text + '\n#ifndef NEWZ\n#define NEWZ(T) ((T*)__CPROVER_allocate(sizeof(T), 1))\n#endif\n' + ext_models(unit, skip=own), [], []
    for o in obs:
        if o.unit is u:
            o.gen = gen
    # h_unknown has no reachable end by design; its vacuity guard is the separate obligation C10.unknown.reach
    obs[4].no_canary = True
    meta = dict(sweep_family='C10', functions_under_contract=sorted(names), assumptions=[
        'std::vector<Basic_specifier|Basic_qualifier>::push_back appends a copy (ghost recorder); the vector object itself is opaque',
        'the constant tables known_words / std_specifiers / std_qualifiers are taken from clang\'s constant evaluator (APValue) of the current source',
        'loops over the constant tables are fully unwound (18 / 3 / 56 entries) with unwinding assertions'])
    return [u, a], obs, meta
