from ipv import Unit, Ob

CORE = 'ipr::util::rb_tree::core<ipr::util::rb_tree::node<long>>::'
CCORE = 'ipr::util::rb_tree::core<drv::N>::'

def unit():
    return Unit('rb', 'drivers/rb.cxx', prefixes=['drv::'],
                outline=[(CORE + 'fixup_insert', 0), (CCORE + 'fixup_insert', 0),
                         ('ipr::util::rb_tree::container<long>::find', 0), ('ipr::util::rb_tree::container<long>::insert', 0),
                         ('ipr::util::rb_tree::chain<drv::N>::find', 0), ('ipr::util::rb_tree::chain<drv::N>::insert', 0)],
                names=dict(rotl=CORE + 'rotate_left', rotr=CORE + 'rotate_right', fixup=CORE + 'fixup_insert',
                           crotl=CCORE + 'rotate_left', crotr=CCORE + 'rotate_right', cfixup=CCORE + 'fixup_insert',
                           insert='ipr::util::rb_tree::container<long>::insert', find='ipr::util::rb_tree::container<long>::find',
                           make_node='ipr::util::rb_tree::container<long>::make_node',
                           cinsert='ipr::util::rb_tree::chain<drv::N>::insert', cfind='ipr::util::rb_tree::chain<drv::N>::find',
                           drv_insert='drv::insert', drv_find='drv::find', drv_cinsert='drv::cinsert', drv_cfind='drv::cfind',
                           long_cmp='drv::long_cmp::operator()'))

def build(tier, seed):
    u = unit()
    obs = []
    for f, txt in (('rotl', 'owning rotate_left'), ('rotr', 'owning rotate_right'), ('crotl', 'intrusive rotate_left'), ('crotr', 'intrusive rotate_right')):
        obs.append(Ob('C08.K1.' + f, u, 'C08/rot.c', 'h_' + f, txt + ': exact pointer rewiring, consistent parent links, nothing else written (frame)',
                      kind='K1', enforce='@{%s}' % f, contracts=['rb.h'], replay='C08'))
    for fl, nm in ((1, 'owning'), (2, 'intrusive')):
        obs.append(Ob('C08.K2.fixup.step.' + nm, u, 'C08/fixup_step.c', 'h_step',
                      nm + ' fixup_insert loop, induction step on the outlined real body: order kept, parent links consistent, black height unchanged, no red-red inside, measure decreases',
                      kind='K2', contracts=['rb.h'], defines=['FLAVOUR=%d' % fl], flags=['--unwind', '17'], replay='C08', timeout=900))
        obs.append(Ob('C08.K2.fixup.exit.' + nm, u, 'C08/fixup_step.c', 'h_exit',
                      nm + ' fixup_insert: loop exit and final root recolouring', kind='K2', contracts=['rb.h'], defines=['FLAVOUR=%d' % fl],
                      flags=['--unwind', '3', '--unwinding-assertions'], replay='C08'))
    for fl, nm in ((1, 'owning'), (2, 'intrusive')):
        obs.append(Ob('C08.K2.descent.find.' + nm, u, 'C08/descent.c', 'h_find_step', nm + ' find: induction step of the search loop on the outlined real body with ghost key intervals: the key stays inside the interval of the position reached, a hit is an equal key, depth increases',
                      kind='K2', contracts=['rb.h'], defines=['FLAVOUR=%d' % fl], replay='C08', timeout=300))
        obs.append(Ob('C08.K2.descent.insert.' + nm, u, 'C08/descent.c', 'h_insert_step', nm + ' insert: induction step of the descent on the outlined real body: parent and slot name the child link taken, the key lies in the slot\'s interval (a leaf linked there keeps the order), a stop is an equal key',
                      kind='K2', contracts=['rb.h'], defines=['FLAVOUR=%d' % fl], replay='C08', timeout=300))
    nk = 3 if tier == 'quick' else 5
    for o in obs:      # a descent loop rewritten into another shape (other live variables) no longer fits the step harness: the whole-sequence obligations stand in, as bounded
        if '.K2.descent.' in o.id or '.K2.fixup.' in o.id:
            o.stand_in = ['C08.K5.%s.%dkeys' % (o.id.rsplit('.', 1)[1], nk)]
    obs.append(Ob('C08.K3.height.step', u, 'C08/height.c', 'h_height_step', 'height lemma, induction step over the ghost summaries (black height, sizes, heights, colours): size >= 2^bh - 1 and height <= 2*bh (+1 under a red root)', kind='K3', contracts=['rb.h'], replay='C08', checks=False, timeout=300))
    obs.append(Ob('C08.K3.height.root', u, 'C08/height.c', 'h_height_root', 'height lemma, conclusion at a black root: height <= 2*log2(n + 1)', kind='K3', contracts=['rb.h'], replay='C08', checks=False, timeout=300))
    nk = 3 if tier == 'quick' else 5
    for h, nm in (('h_owning', 'owning'), ('h_intrusive', 'intrusive')):
        obs.append(Ob('C08.K5.%s.%dkeys' % (nm, nk), u, 'C08/bounded.c', h,
                      nm + ' flavour: all sequences of %d keys from %d values, full validity check after every insertion, found / not found / duplicates' % (nk, nk + 1),
                      kind='K5', contracts=['rb.h'], defines=['NK=%d' % nk], flags=['--unwind', str(nk + 2)], bounded='%d insertions, keys in [0,%d]' % (nk, nk),
                      replay='C08', timeout=3000))
    meta = dict(sweep_family='C08', functions_under_contract=[u_ for u_ in ('rotl', 'rotr', 'crotl', 'crotr')], assumptions=[])
    return [u], obs, meta
