"""C09: every node has the type its kind prescribes; sequence types track their members.  One obligation per kind named by the
property (drivers/types.cxx holds the oracle, written from the property text and the interface); nodes given a type at construction
are C02's `type()` clauses, run here as well for the factories that take a type."""
import os, re
import ipv, factories as F
from ipv import Unit, Ob, Undecided, VERIF

KINDS = """break continue asm delete_constant static_assert requires restriction truth class union enum namespace closure
 pointer reference rvalue_reference array qualified function forall ptr_to_member tor as_type decltype
 cast static_cast dynamic_cast const_cast reinterpret_cast literal rewrite where where_region expr_stmt labeled_stmt goto while do for for_in handler
 phased_evaluation id_expr_decl expr_list parameter_list literal_cv id_expr_reference expr_list_retyped""".split()
TEXT = dict(truth='true and false have type bool', delete_constant='the deleted-definition constant has type void', expr_list='the type of an expression list is the product of its current elements\' types in order, also after a later addition',
            parameter_list='the type of a parameter list is the product of its current parameters\' types in order, also after a later addition', id_expr_decl='an id-expression of a declaration has that declaration\'s type',
            literal_cv='a literal reports the target type it was requested with, also when the same spelling exists at the unqualified / qualified version of that type', id_expr_reference='an id-expression of a declaration of reference type has that reference type',
            expr_list_retyped='the product type of an expression list follows the current type of an element that was given another type after it was first read', where_region='a where-expression with local declarations has the type of its main expression', handler='a handler has the type of its body')


def build(tier, seed):
    if '-I' + os.path.join(VERIF, 'drivers') not in ipv.CLANG_ARGS:
        ipv.CLANG_ARGS.append('-I' + os.path.join(VERIF, 'drivers'))
    names = {'t_' + k: 'drv::t_' + k for k in KINDS}
    u = Unit('types', 'drivers/types.cxx', roots=sorted(names.values()), names=names)
    obs = []
    def mkgen(k):
        def gen(unit):
            fn = unit.by_name[unit.resolve_name('t_' + k)]
            ret, cname, cps = F.cparams(fn['sig'])
            own = [v['name'] + '__ext' for v in unit.json['virtual_stubs'] if v['method'] == 'ipr::String::characters'] if k == 'literal_cv' else []
            t = F.PRELUDE_C + F.ext_models(unit, skip=own)
            if own:      # the literal's spelling: a foreign String spelled "7" (the comparator of the literal table reads its characters)
                t += '#include "svmodel.h"\nsv_t %s(struct S_ZTSN3ipr6StringE* self) { static unsigned char w[1] = { 55 }; sv_t v; v.f__M_len = 1; v.f__M_str = w; return v; }\n' % own[0]
            t += 'void h_%s(void)\n{\n' % k
            args = []
            for i, (ct, pn) in enumerate(cps):
                if i == 0:
                    t += '  %s %s = NEWZ(%s);      /* a freshly constructed Lexicon */\n' % (ct, pn, ct[:-1].strip())
                else:
                    t += F.operand_decl(ct, pn, i)
                    if k in ('qualified', 'literal_cv') and ct == 'unsigned long':
                        t += '  __CPROVER_assume(%s != 0);\n' % pn
                args.append(pn)
            t += '  _Bool ok = %s(%s);\n' % (cname, ', '.join(args))
            t += '  __CPROVER_assert(ok, "C09: %s");\n  IPR_CANARY_POINT();\n}\n' % TEXT.get(k, 'a %s node has the type its kind prescribes' % k.replace('_', ' '))
            return t, [], dict(kind=k)
        return gen
    for k in KINDS:
        o = Ob('C09.' + k, u, None, 'h_' + k, TEXT.get(k, 'type() of a %s node, built by the real factory from arbitrary operands, is the type the property prescribes for its kind' % k.replace('_', ' ')),
               kind='K1', replay='C09', timeout=240, flags=['--unwind', '12'], objbits=12)
        o.gen = mkgen(k); obs.append(o)
    # nodes given a type at construction report exactly that type: the type() clauses of C02's factory obligations
    import C02
    u2, o2, m2 = C02.build(tier, seed)
    given = [o for o in o2 if 'ipr::Optional<ipr::Type>' in o.clause or 'const ipr::Type &' in o.clause]
    for o in given:
        o.id = 'C09.given.' + o.id.split('.', 1)[1]
    import C04
    u4, o4, m4 = C04.build(tier, seed)
    o4 = [o for o in o4 if o.id in ('C04.get.symbol', 'C04.get.this', 'C04.get.symbol_then_label', 'C04.get.symbol_then_this', 'C04.get.label_then_symbol')]
    for o in o4:
        o.id = 'C09.given.atoms.' + o.id.split('.', 2)[2]      # symbols, `this`, labels are given their type at construction and keep it across related requests
    given = given + o4; u2 = u2 + u4
    meta = dict(sweep_family='C09', functions_under_contract=sorted(names.values()), kinds=len(KINDS), given_type_factories=len(given),
                assumptions=['expected constants come from the Lexicon\'s own accessors (C13)', 'operands are arbitrary foreign nodes whose type() is an arbitrary function of the node',
                             'std::forward_list / std::vector<const void*> / std::deque sequence models (harness/flmodel.h, harness/seqmodel.h)',
                             'built-in and nullptr types: C13; product / sum type nodes: typename through Composite<T>::type like every compound type (the sequence-keyed get_product / get_sum are C01\'s)'])
    return [u] + u2, obs + given, meta
