"""C07: scopes, overload sets and declaration sets are mutually consistent.
   Histories: every declaration history of length <= 3 over two names and two types (all aliasing patterns at once, symbolic choices)
   entered into a REAL scope by the lowered real code -- Scope::make_*, both red-black tables (insert/find with node_compare as clang
   resolved it), decl_factory::declare/redeclare, decl_rep, Overload::operator[], typed_sequence -- with every clause of the property
   asserted after every step.  The length bound makes these obligations BOUNDED (K5); what carries them to longer histories is C08
   (the tables stay valid search trees for any insertions) plus the comparator obligations below (proved for all keys).
   Comparators: node_compare at (Overload, Name) and (overload_entry, Type) keys is a three-way total order whose zero set is node
   identity of the key (K3, three symbolic keys) -- the obligation that exposes an overload of operator() resolving to the wrong
   pair of operands."""
import os, re
import ipv, factories as F
from ipv import Unit, Ob, VERIF

CL = ['the scope lists every declaration in entry order', 'the scope\'s type is the product of the declarations\' types in order', 'looking up a declared name yields an overload set',
      'selecting by type yields the first declaration entered with that name and type', 'a type never declared under a name selects nothing', 'a name never declared yields no overload set',
      'each declaration\'s master is the first declaration with its name and type', 'a declaration-set is exactly the declarations sharing name and type, in entry order', 'declarations report their name and type',
      'members report positions equal to their index']
ORDER = r'''
/* K3: node_compare as clang resolved it at the two tables of a scope.  Elements are built by the real constructors. */
typedef struct S_ZTSN3ipr4impl8OverloadE ovl_t; typedef struct S_ZTSN3ipr4NameE name_t; typedef struct S_ZTSN3ipr4TypeE type_t;
typedef struct S_ZTSN3ipr4impl14overload_entryE entry_t; typedef struct S_ZTSN3ipr4impl12node_compareE cmp_t;
#define SGN(x) ((x) < 0 ? -1 : (x) > 0 ? 1 : 0)
void h_order_names(void)
{
  name_t* k[3]; ovl_t* e[3]; cmp_t c; __builtin_memset(&c, 0, sizeof c);
  name_t* pool[3]; for (int i = 0; i < 3; i++) pool[i] = NEWZ(name_t);
  for (int i = 0; i < 3; i++) { int j; { int t_; j = t_; } __CPROVER_assume(0 <= j && j < 3); k[i] = pool[j]; e[i] = NEWZ(ovl_t); @{overload_ctor}(e[i], k[i]); }
  int c00 = @{cmp_ovl_name}(&c, e[0], k[0]), c01 = @{cmp_ovl_name}(&c, e[0], k[1]), c10 = @{cmp_ovl_name}(&c, e[1], k[0]), c12 = @{cmp_ovl_name}(&c, e[1], k[2]), c02 = @{cmp_ovl_name}(&c, e[0], k[2]);
  __CPROVER_assert(c00 == 0, "C07 CMP-ORDER (overload sets by name): an overload set compares equal to the name it was built for");
  __CPROVER_assert((c01 == 0) == (k[0] == k[1]), "C07 CMP-ORDER (overload sets by name): zero exactly for the same name node");
  __CPROVER_assert(SGN(c01) == -SGN(c10), "C07 CMP-ORDER (overload sets by name): antisymmetric through the key");
  __CPROVER_assert(!(c01 < 0 && c12 < 0) || c02 < 0, "C07 CMP-ORDER (overload sets by name): transitive");
  IPR_CANARY_POINT();
}
void h_order_types(void)
{
  type_t* k[3]; entry_t* e[3]; cmp_t c; __builtin_memset(&c, 0, sizeof c);
  type_t* pool[3]; for (int i = 0; i < 3; i++) pool[i] = NEWZ(type_t);
  for (int i = 0; i < 3; i++) { int j; { int t_; j = t_; } __CPROVER_assume(0 <= j && j < 3); k[i] = pool[j]; e[i] = NEWZ(entry_t); e[i]->f_type = k[i]; }
  int c00 = @{cmp_entry_type}(&c, e[0], k[0]), c01 = @{cmp_entry_type}(&c, e[0], k[1]), c10 = @{cmp_entry_type}(&c, e[1], k[0]), c12 = @{cmp_entry_type}(&c, e[1], k[2]), c02 = @{cmp_entry_type}(&c, e[0], k[2]);
  int e01 = @{cmp_entry_entry}(&c, e[0], e[1]);
  __CPROVER_assert(c00 == 0, "C07 CMP-ORDER (entries by type): an entry compares equal to its own type");
  __CPROVER_assert((c01 == 0) == (k[0] == k[1]), "C07 CMP-ORDER (entries by type): zero exactly for the same type node");
  __CPROVER_assert(SGN(c01) == -SGN(c10), "C07 CMP-ORDER (entries by type): antisymmetric through the key");
  __CPROVER_assert(!(c01 < 0 && c12 < 0) || c02 < 0, "C07 CMP-ORDER (entries by type): transitive");
  __CPROVER_assert(SGN(e01) == SGN(c01), "C07 CMP-ORDER (entries by type): comparing two entries agrees with comparing an entry with a type");
  IPR_CANARY_POINT();
}
'''


def build(tier, seed):
    if '-I' + os.path.join(VERIF, 'drivers') not in ipv.CLANG_ARGS:
        ipv.CLANG_ARGS.append('-I' + os.path.join(VERIF, 'drivers'))
    fns = ['vars', 'mixed', 'parameters', 'enumerators', 'position', 'types3']
    names = {'s_' + k: 'drv::s_' + k for k in fns}
    NC = 'ipr::impl::node_compare::operator()'
    names.update(cmp_ovl_name=(NC, 'Overload'), cmp_entry_type=(NC, '=_ZNK3ipr4impl12node_compareclERKNS0_14overload_entryERKNS_4TypeE'), cmp_entry_entry=(NC, '=_ZNK3ipr4impl12node_compareclERKNS0_14overload_entryES4_'),
                 overload_ctor='ipr::impl::Overload::Overload')
    u = Unit('scopes', 'drivers/scopes.cxx', roots=sorted(v for k, v in names.items() if k.startswith('s_')) + [NC, 'ipr::impl::Overload::Overload'], names=names)
    obs = []
    def mkgen(k):
        def gen(unit):
            fn = unit.by_name[unit.resolve_name('s_' + k.split('.')[0].replace('vars4', 'vars'))]
            ret, cname, cps = F.cparams(fn['sig'])
            t = F.PRELUDE_C + F.ext_models(unit) + ORDER + 'void h_%s(void)\n{\n' % k.replace('.', '_')
            args = []
            for i, (ct, pn) in enumerate(cps):
                if ct == 'int' and k in PATTERN and pn in PATTERN[k]:
                    t += '  int %s = %d;\n' % (pn, PATTERN[k][pn])
                elif ct == 'int':
                    hi = 3 if pn == 'v_k' else (5 if pn == 'v_which' else 1)
                    lo = 1 if pn == 'v_k' else 0
                    t += '  int %s; { int t_%d; %s = t_%d; } __CPROVER_assume(%d <= %s && %s <= %d);\n' % (pn, i, pn, i, lo, pn, pn, hi)
                elif k in PATTERN and re.match(r'v_[nt][012]$', pn):
                    # names / types are elements of one array, so that their ADDRESS ORDER (what node_compare looks at, hence the shape of the two
                    # red-black tables) is fixed per obligation: ascending or descending.  Tree shapes for arbitrary orders are C08's business.
                    kind_, idx = pn[2], int(pn[3]); rev = PATTERN[k].get('rev', 0)
                    if idx == 0:
                        t += '  static %s pool_%s[3];\n' % (ct[:-1].strip(), kind_)
                    if pn == 'v_t0' and k.startswith('types3'):
                        pass
                    t += '  %s %s = &pool_%s[%d];\n' % (ct, pn, kind_, (2 - idx) if rev else idx)
                elif 'Lexicon' in ct:
                    t += '  %s %s = NEWZ(%s);\n' % (ct, pn, ct[:-1].strip())
                else:
                    t += F.operand_decl(ct, pn, i)
                args.append(pn)
            t += '  unsigned bad = %s(%s);\n' % (cname, ', '.join(args))
            for b, text_ in enumerate(CL):
                t += '  __CPROVER_assert(!(bad & %du), "C07 %s: %s");\n' % (1 << b, k, text_.replace('"', "'"))
            t += '  IPR_CANARY_POINT();\n}\n'
            return t, [], dict(history=k)
        return gen
    what = dict(vars='every history of <= 3 variable declarations over two names and two types (symbolic choices), clauses asserted after every step',
                mixed='a declaration followed by a redeclaration for each declaration kind (field, bit-field, type, function, primary/secondary template, variable then field)',
                parameters='parameter lists of <= 3 parameters: homogeneous scope rules, singleton sets, positions equal to the index',
                enumerators='enumerations of <= 3 enumerators: homogeneous scope rules, singleton sets, positions equal to the index',
                position='parameters, enumerators and bases report the position they were constructed with, for EVERY 64-bit position (add_member / declare_base pass the current size: checked in the history obligations)')
    global PATTERN
    PATTERN = {}
    hk = []
    for a in range(2):
        for b in range(2):
            for c in range(2):
                for d in range(2):
                    for rev in (0, 1):
                        key = 'vars.n0%d%d.t0%d%d.%s' % (a, b, c, d, 'desc' if rev else 'asc')
                        PATTERN[key] = dict(v_ni0=0, v_ni1=a, v_ni2=b, v_ni3=0, v_ti0=0, v_ti1=c, v_ti2=d, v_ti3=0, v_k=3, rev=rev); hk.append(key)
                        if tier == 'thorough' and rev == 0:      # thorough: a fourth declaration, every choice of its name and type
                            for e in range(2):
                                for f in range(2):
                                    key4 = 'vars4.n0%d%d%d.t0%d%d%d' % (a, b, e, c, d, f)
                                    PATTERN[key4] = dict(v_ni0=0, v_ni1=a, v_ni2=b, v_ni3=e, v_ti0=0, v_ti1=c, v_ti2=d, v_ti3=f, v_k=4, rev=0); hk.append(key4)
                                    what[key4] = 'the history of 4 variable declarations with names (n0, n%d, n%d, n%d) and types (t0, t%d, t%d, t%d): clauses asserted after every step' % (a, b, e, c, d, f)
                        what[key] = 'the history of 3 variable declarations with names (n0, n%d, n%d) and types (t0, t%d, t%d), node addresses %s: clauses asserted after every step' % (a, b, c, d, 'descending' if rev else 'ascending')
    import itertools
    for perm in itertools.permutations(range(3)):
        key = 'types3.%d%d%d' % perm
        PATTERN[key] = dict(v_a=perm[0], v_b=perm[1], v_c=perm[2], rev=0); hk.append(key)
        what[key] = 'one name declared with three distinct types entered in the order %s of their address ranks: all clauses and the complete selection-by-type matrix after every step' % (perm,)
    for k in hk + [x for x in fns if x not in ('vars', 'types3')]:
        o = Ob('C07.history.' + k, u, None, 'h_' + k.replace('.', '_'), what[k], kind='K5', replay='C07', timeout=300, flags=['--unwind', '12'], objbits=12, bounded='histories of at most %d declarations' % (4 if tier == 'thorough' else 3))
        o.gen = mkgen(k); obs.append(o)
    for o in obs:
        if o.id == 'C07.history.position':
            o.id, o.kind, o.bounded = 'C07.position', 'K1', None
    # the two tables are C08's red-black trees: its rotation contracts and fix-up induction steps are what keeps look-ups right
    # beyond the bounded histories, so they are run here as well
    import C08
    u8, o8, m8 = C08.build(tier, seed)
    o8 = [o for o in o8 if o.kind != 'K5']
    for o in o8:
        o.id = 'C07.tables.' + o.id.split('.', 1)[1]
        if getattr(o, 'stand_in', None):      # here the bounded histories on the real scope code are what runs the descents whole
            o.stand_in = [x.id for x in obs if x.kind == 'K5']
    for k, w in (('names', 'overload sets keyed by name'), ('types', 'entries keyed by type')):
        o = Ob('C07.order.' + k, u, None, 'h_order_' + k, 'node_compare as resolved at the table of %s: three-way total order, zero exactly for the same node (three symbolic keys)' % w, kind='K3', replay='C07', timeout=600, flags=['--unwind', '12'], objbits=12)
        o.gen = mkgen('mixed'); obs.append(o)
    meta = dict(sweep_family='C07', functions_under_contract=sorted(str(v) for v in names.values()),
                assumptions=['history length <= 3 (bounded obligations); longer histories rest on C08 (both tables stay valid search trees for any insertions with a total-order comparator) and on the comparator obligations proved here for all keys',
                             'std::vector<T*> / std::forward_list / std::deque sequence models; std::less<> on node addresses = address order',
                             'names and types are arbitrary foreign nodes (identity is all the scope machinery looks at)'])
    return [u] + u8, obs + o8, meta
