import os
from ipv import Unit, Ob, VERIF
from gen import insert_stubs

def build(tier, seed):
    TBL = 'ipr::util::rb_tree::container<ipr::impl::Basic_binary<ipr::impl::Composite<ipr::Qualified>>>::'
    u = Unit('qualified', '/repo/src/impl.cxx', roots=['ipr::impl::type_factory::get_qualified'],
             vroots=['ipr::Basic_binary<ipr::Qualifiers, const ipr::Type &>::first', 'ipr::Basic_binary<ipr::Qualifiers, const ipr::Type &>::second'],
             names=dict(get_qualified='ipr::impl::type_factory::get_qualified', make_node=TBL + 'make_node',
                        qual_ctor=('ipr::impl::Basic_binary<ipr::impl::Composite<ipr::Qualified>>::Basic_binary', 'Rep'),
                        first='ipr::Basic_binary<ipr::Qualifiers, const ipr::Type &>::first', second='ipr::Basic_binary<ipr::Qualifiers, const ipr::Type &>::second'))
    H = 'C11/qualified.c'
    obs = [
        Ob('C11.get_qualified', u, H, 'h_get_qualified', 'get_qualified(q, t): empty q refused; result has non-empty qualifiers, an unqualified main variant, the union of qualifier sets over the innermost type; same request -> same node (insert through its contract)',
           kind='K1', flags=['--unwind', '4'], replay='C11'),
        Ob('C11.cmp_order', u, H, 'h_cmp_order', 'binary_compare at (Qualifiers, Type) keys is a three-way total order with zero set = key equality (three symbolic keys)', kind='K3', replay='C11'),
    ]
    def gen(unit):
        stubs, skipped, info = insert_stubs(unit)
        if len(info) != 1:
            raise Exception('expected exactly one table in get_qualified')
        return stubs + open(os.path.join(VERIF, 'harness', H)).read(), skipped, info
    for o in obs:
        o.gen = gen
    meta = dict(sweep_family='C11', functions_under_contract=['get_qualified', 'cmp_elem_key', 'qual_ctor', 'make_node', 'first', 'second'],
                assumptions=['rb_tree::container<impl::Qualified>::insert through the contract of harness/insert_stub.h (established by C08 for the template body; L-tree, L-order)',
                             'operand types are arbitrary nodes; qualified operands are nodes built by the real constructor and are in normal form (table invariant, L-history)',
                             'std::less<> = value / address order; std::allocator returns fresh storage'])
    return [u], obs, meta
