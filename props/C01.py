"""C01: types are unified.  Obligations are generated from the lowered unit: one insert-contract stub per table instantiation
(found in the JSON index), one two-request harness per type constructor."""
import re, os
from ipv import Unit, Ob, Undecided, VERIF
from gen import insert_stubs, harness_for, order_harness

TF = 'ipr::impl::type_factory::'

# constructor -> (overload selector on the mangled name, operand kinds, accessors of the result (path to the base that declares them, dispatcher), description)
#   operand kinds: T type, E expr, P product, S sum
G = dict(pointer=('get_pointer', None), reference=('get_reference', None), rvalue_reference=('get_rvalue_reference', None),
         as_type=('get_as_type', '=_ZN3ipr4impl12type_factory11get_as_typeERKNS_4ExprE'), as_type_x=('get_as_type', '=_ZN3ipr4impl12type_factory11get_as_typeERKNS_4ExprERKNS_8TransferE'),
         array=('get_array', None), ptr_to_member=('get_ptr_to_member', None), tor=('get_tor', None), forall=('get_forall', None),
         function2=('get_function', '=_ZN3ipr4impl12type_factory12get_functionERKNS_7ProductERKNS_4TypeE'),
         function3=('get_function', '=_ZN3ipr4impl12type_factory12get_functionERKNS_7ProductERKNS_4TypeERKNS_4ExprE'),
         function3x=('get_function', '=_ZN3ipr4impl12type_factory12get_functionERKNS_7ProductERKNS_4TypeERKNS_8TransferE'),
         function4=('get_function', '=_ZN3ipr4impl12type_factory12get_functionERKNS_7ProductERKNS_4TypeERKNS_4ExprERKNS_8TransferE'),
         transfer=('get_transfer', None), transfer_l=('get_transfer_from_linkage', None), transfer_c=('get_transfer_from_convention', None),
         product=('get_product', '=_ZN3ipr4impl12type_factory11get_productERKNS_8SequenceINS_4TypeEEE'), sum=('get_sum', '=_ZN3ipr4impl12type_factory7get_sumERKNS_8SequenceINS_4TypeEEE'))

def specs():
    S = {}
    S['pointer'] = simple('pointer', 'T', [('__b0.__b1', 'un_type_operand')], 'pointer')
    S['reference'] = simple('reference', 'T', [('__b0.__b1', 'un_type_operand')], 'reference')
    S['rvalue_reference'] = simple('rvalue_reference', 'T', [('__b0.__b1', 'un_type_operand')], 'rvalue reference')
    S['as_type'] = simple('as_type', 'E', [('__b0.__b1', 'un_expr_operand')], 'expression-as-type')
    S['array'] = simple('array', 'TE', [('__b0.__b1', 'arr_first'), ('__b0.__b1', 'arr_second')], 'array')
    S['ptr_to_member'] = simple('ptr_to_member', 'TT', [('__b0.__b1', 'tt_first'), ('__b0.__b1', 'tt_second')], 'pointer-to-member')
    S['tor'] = simple('tor', 'PS', [('__b0.__b1', 'ps_first'), ('__b0.__b1', 'ps_second')], 'constructor/destructor type')
    S['forall'] = simple('forall', 'PT', [('__b0.__b1', 'pt_first'), ('__b0.__b1', 'pt_second')], 'forall')
    S['function3'] = simple('function3', 'PTE', [('__b0', 'fn_first'), ('__b0', 'fn_second'), ('__b0', 'fn_third')], 'function with exception specification')
    fnchk = [('(void*)@{vcall:fn_first}(&r1->__b0) == (void*)p1 && (void*)@{vcall:fn_second}(&r1->__b0) == (void*)t1', 'the function type reports its source and target')]
    S['function_default_spec'] = dict(pre='  product_t* p1 = any_product(); product_t* p2 = any_product(); type_t* t1 = any_type(); type_t* t2 = any_type(); expr_t* e2 = nondet_bool() ? %s : any_expr();\n' % FALSE_CST,
        call1='@{G_function2}(FAC, p1, t1)', call2='@{G_function3}(FAC, p2, t2, e2)', same='p1 == p2 && t1 == t2 && e2 == %s' % FALSE_CST, checks=fnchk + [('@{vcall:fn_third}(&r1->__b0) == %s' % FALSE_CST, 'omitting the exception specification means the false constant')],
        claim='a function request that omits the exception specification is the request that spells out the default non-throwing one', what='function (default specification)')
    X = '  transfer_pools(); int x1 = any_xf(), x2 = any_xf();\n'
    S['function4'] = dict(pre=X + '  product_t* p1 = any_product(); product_t* p2 = any_product(); type_t* t1 = any_type(); type_t* t2 = any_type(); expr_t* e1 = any_expr(); expr_t* e2 = any_expr();\n',
        call1='@{G_function4}(FAC, p1, t1, e1, XF[x1])', call2='@{G_function4}(FAC, p2, t2, e2, XF[x2])', same='p1 == p2 && t1 == t2 && e1 == e2 && xf_same(x1, x2)', checks=fnchk,
        claim='function types with a transfer are the same node exactly for the same operands and the same (linkage, convention) spellings', what='function with transfer', transfers=True,
        order=(X + '  int x3 = any_xf(); __CPROVER_assume(!xf_natural(x1) && !xf_natural(x2) && !xf_natural(x3));\n', ['@{G_function4}(FAC, any_product(), any_type(), any_expr(), XF[x1])', '@{G_function4}(FAC, any_product(), any_type(), any_expr(), XF[x2])', '@{G_function4}(FAC, any_product(), any_type(), any_expr(), XF[x3])']))
    S['function_natural'] = dict(pre=X + '  product_t* p1 = any_product(); product_t* p2 = any_product(); type_t* t1 = any_type(); type_t* t2 = any_type(); expr_t* e1 = any_expr(); expr_t* e2 = any_expr();\n',
        call1='@{G_function3}(FAC, p1, t1, e1)', call2='@{G_function4}(FAC, p2, t2, e2, XF[x2])', same='p1 == p2 && t1 == t2 && e1 == e2 && xf_natural(x2)', checks=fnchk,
        claim='spelling out the natural C++ transfer is the same request as omitting it (function)', what='function (natural transfer)', transfers=True)
    S['function3x'] = dict(pre=X + '  product_t* p1 = any_product(); product_t* p2 = any_product(); type_t* t1 = any_type(); type_t* t2 = any_type(); expr_t* e2 = nondet_bool() ? %s : any_expr();\n' % FALSE_CST,
        call1='@{G_function3x}(FAC, p1, t1, XF[x1])', call2='@{G_function4}(FAC, p2, t2, e2, XF[x2])', same='p1 == p2 && t1 == t2 && e2 == %s && xf_same(x1, x2)' % FALSE_CST, checks=fnchk,
        claim='function(source, target, transfer) is function(source, target, false, transfer)', what='function (transfer, default specification)', transfers=True)
    S['as_type_x'] = dict(pre=X + '  expr_t* a1 = any_expr(); expr_t* a2 = any_expr();\n', call1='@{G_as_type_x}(FAC, a1, XF[x1])', call2='@{G_as_type_x}(FAC, a2, XF[x2])', same='a1 == a2 && xf_same(x1, x2)',
        checks=[('(void*)@{vcall:un_expr_operand}(&r1->__b0.__b1) == (void*)a1', 'the as-type reports its expression')],
        claim='expression-as-type with a transfer is the same node exactly for the same expression and the same transfer spelling', what='expression-as-type with transfer', transfers=True,
        order=(X + '  int x3 = any_xf(); __CPROVER_assume(!xf_natural(x1) && !xf_natural(x2) && !xf_natural(x3));\n', ['@{G_as_type_x}(FAC, any_expr(), XF[x1])', '@{G_as_type_x}(FAC, any_expr(), XF[x2])', '@{G_as_type_x}(FAC, any_expr(), XF[x3])']))
    S['as_type_natural'] = dict(pre=X + '  expr_t* a1 = any_expr(); expr_t* a2 = any_expr();\n', call1='@{G_as_type}(FAC, a1)', call2='@{G_as_type_x}(FAC, a2, XF[x2])', same='a1 == a2 && xf_natural(x2)',
        claim='spelling out the natural C++ transfer is the same request as omitting it (expression-as-type)', what='expression-as-type (natural transfer)', transfers=True)
    S['transfer'] = dict(pre=X + '  int l1 = any_xf(), l2 = any_xf(), c1 = any_xf(), c2 = any_xf();\n', call1='@{G_transfer}(FAC, &LKS[l1], &CCS[c1])', call2='@{G_transfer}(FAC, &LKS[l2], &CCS[c2])',
        same='lk_spelling(&LKS[l1]) == lk_spelling(&LKS[l2]) && cc_spelling(&CCS[c1]) == cc_spelling(&CCS[c2])',
        claim='transfers are the same node exactly for the same linkage and calling-convention spellings', what='transfer', transfers=True)
    Q = '  seq_pools();\n'
    for k, w in (('product', 'product'), ('sum', 'sum')):
        S[k] = dict(pre=Q, call1='@{G_%s}(FAC, SEQ[0])' % k, call2='@{G_%s}(FAC, SEQ[1])' % k, same='seq_same(0, 1)',
                    claim='%s types are the same node exactly when the type sequences are equal element by element (any two sequence objects)' % w, what=w, sequences=True,
                    order=(Q, ['@{G_%s}(FAC, SEQ[0])' % k, '@{G_%s}(FAC, SEQ[1])' % k, '@{G_%s}(FAC, SEQ[2])' % k]))
    return S

VROOTS = dict(
    un_type_operand='ipr::Basic_unary<const ipr::Type &>::operand', un_expr_operand='ipr::Basic_unary<const ipr::Expr &>::operand',
    arr_first='ipr::Basic_binary<const ipr::Type &, const ipr::Expr &>::first', arr_second='ipr::Basic_binary<const ipr::Type &, const ipr::Expr &>::second',
    tt_first='ipr::Basic_binary<const ipr::Type &, const ipr::Type &>::first', tt_second='ipr::Basic_binary<const ipr::Type &, const ipr::Type &>::second',
    ps_first='ipr::Basic_binary<const ipr::Expr &, const ipr::Type &>::first', ps_second='ipr::Basic_binary<const ipr::Expr &, const ipr::Type &>::second',
    pt_first='ipr::Basic_binary<const ipr::Product &, const ipr::Type &>::first', pt_second='ipr::Basic_binary<const ipr::Product &, const ipr::Type &>::second',
    fn_first='ipr::Ternary<ipr::Category<ipr::Category_code::Function, ipr::Type>, const ipr::Product &, const ipr::Type &>::first',
    fn_second='ipr::Ternary<ipr::Category<ipr::Category_code::Function, ipr::Type>, const ipr::Product &, const ipr::Type &>::second',
    fn_third='ipr::Ternary<ipr::Category<ipr::Category_code::Function, ipr::Type>, const ipr::Product &, const ipr::Type &>::third')
KIND = dict(T=('type_t*', 'any_type()'), E=('expr_t*', 'any_expr()'), P=('product_t*', 'any_product()'), S=('sum_t*', 'any_sum()'))


def simple(fn, kinds, acc, what):
    pre = ''.join('  %s a%d = %s; %s b%d = %s;\n' % (KIND[k][0], i, KIND[k][1], KIND[k][0], i, KIND[k][1]) for i, k in enumerate(kinds))
    args1 = ', '.join('a%d' % i for i in range(len(kinds))); args2 = ', '.join('b%d' % i for i in range(len(kinds)))
    opre = ''.join('  %s %s;\n' % (KIND[k][0], ', '.join(('*' if j else '') + 'o%d_%d = %s' % (j, i, KIND[k][1]) if False else 'o%d_%d = %s' % (j, i, KIND[k][1]) for j in range(1))) for i, k in enumerate(kinds))
    opre = ''.join('  %s o0_%d = %s; %s o1_%d = %s; %s o2_%d = %s;\n' % (KIND[k][0], i, KIND[k][1], KIND[k][0], i, KIND[k][1], KIND[k][0], i, KIND[k][1]) for i, k in enumerate(kinds))
    ocalls = ['@{G_%s}(FAC, %s)' % (fn, ', '.join('o%d_%d' % (j, i) for i in range(len(kinds)))) for j in range(3)]
    return dict(order=(opre, ocalls), pre=pre, call1='@{G_%s}(FAC, %s)' % (fn, args1), call2='@{G_%s}(FAC, %s)' % (fn, args2),
                same=' && '.join('a%d == b%d' % (i, i) for i in range(len(kinds))),
                checks=[('(void*)@{vcall:%s}(&r1->%s) == (void*)a%d' % (d, path, i), 'the %s type reports operand %d it was requested with' % (what, i + 1)) for i, (path, d) in enumerate(acc)],
                claim='asking the %s constructor twice returns the very same node exactly when the arguments are the same nodes' % what, what=what)


FALSE_CST = '((expr_t*)&g__ZN3ipr4impl12_GLOBAL__N_19false_cstE)'   # first-base chain: the Symbol object starts with its Expr subobject


def build(tier, seed):
    SP = specs()
    names = {'G_' + n: ((TF + f[0], f[1]) if f[1] else TF + f[0]) for n, f in G.items()}
    names.update(VROOTS)
    names.update(logo_operand='ipr::Basic_unary<const ipr::String &>::operand', string_characters='ipr::String::characters',
                 xfer_first='ipr::Basic_binary<const ipr::Linkage &, const ipr::Calling_convention &>::first', xfer_second='ipr::Basic_binary<const ipr::Linkage &, const ipr::Calling_convention &>::second',
                 empty_string='ipr::String::empty_string', seqT_size='ipr::Sequence<ipr::Type>::size', seqT_get='ipr::Sequence<ipr::Type>::get')
    u = Unit('types', '/repo/src/impl.cxx', roots=sorted(set(TF + f[0] for f in G.values())) + ['ipr::String::empty_string'], vroots=sorted(set(VROOTS.values())), names=names)
    obs = []
    def gen(unit):
        stubs, skipped, info = insert_stubs(unit)
        text = '#define WITH_TRANSFERS\n#define WITH_SEQUENCES\n' + open(os.path.join(VERIF, 'harness/C01/lib.h')).read() + stubs + ''.join(harness_for(n, s, unit, info) for n, s in SP.items()) + ''.join(order_harness(n, s) for n, s in SP.items() if 'order' in s)
        return text, skipped, info
    for n, s in SP.items():
        bounded = 'type sequences of length <= 2' if s.get('sequences') else None
        o = Ob('C01.get.' + n, u, None, 'h_' + n, 'two requests (%s) from symbolic operand pools: same request <=> same node; insert used through its contract with the real comparator and the real element constructor' % s['what'],
               kind='K5' if bounded else 'K1', replay='C01', timeout=1200, flags=['--unwind', '65'], bounded=bounded, objbits=12 if bounded else None)
        o.gen = gen
        obs.append(o)
    for n, s in SP.items():
        if 'order' in s:
            o = Ob('C01.order.' + n, u, None, 'h_order_' + n, 'CMP-ORDER for the table of the %s constructor: reflexive on the built element, antisymmetric, transitive (three symbolic requests)' % s['what'],
                   kind='K3', replay='C01', timeout=1200, flags=['--unwind', '65', '--sat-solver', 'cadical'],      # measured: cadical 145 s vs minisat 225 s on the transfer-aware comparators
                   objbits=12 if (s.get('sequences') or s.get('transfers')) else None)
            o.gen = gen
            obs.append(o)
    meta = dict(sweep_family='C01', functions_under_contract=sorted(names),
                assumptions=['rb_tree::container<T>::insert through its contract (stub generated per instantiation from the JSON index; established by C08 modulo L-tree / L-order)',
                             'operands are arbitrary nodes (foreign objects); foreign transfers spell their linkage / convention with one String node per spelling (C03)',
                             'std::less<> = value / address order; u8string_view::compare = bytewise lexicographic; std::allocator returns fresh storage',
                             'L-history: the witness element stands for anything entered into the table earlier'])
    # qualified types are one of the constructors of this property: their obligations live in C11 and are run here as well
    import C11
    u11, o11, m11 = C11.build(tier, seed)
    for o in o11:
        o.id = 'C01.qualified.' + o.id.split('.', 1)[1]
    # the Warehouse overloads of get_product / get_sum (contents copied into the Lexicon first): the scenario obligation of C05
    import C05
    uw, ow, mw = C05.scenarios(tier, seed)
    ow = [o for o in ow if o.id == 'C05.scenario.warehouse']
    for o in ow:
        o.id = 'C01.warehouse'
    # the insert contract assumed at every table is established on the real tree code by C08: its rotation contracts, fix-up loop
    # VCs and height lemma are run here too (a change to the tree code that loses nodes breaks unification of every type table)
    import C08
    u8, o8, m8 = C08.build(tier, seed)
    o8 = [o for o in o8 if o.kind != 'K5' and '.K2.descent.' not in o.id]
    for o in o8:
        o.stand_in = None      # no bounded stand-in here: a loop VC that no longer fits is left undecided in this check
    for o in o8:
        o.id = 'C01.tables.' + o.id.split('.', 1)[1]
    return [u] + u11 + uw + u8, obs + o11 + ow + o8, meta
