"""C05: node identity is stable: nodes never move, never silently change, never alias.
   TWO: one obligation per factory member function (C02's enumeration): the real factory is called TWICE with different operands; the
     two nodes are distinct objects (generative constructors never hand out a live node again -- literals and template-ids, which are
     documented to unify, are exempt from that clause), and after the second call the FIRST node still reports every operand, flag
     and type it was given (C02's read-back clauses evaluated again on the first node).  The farms are forward_list models whose
     contract is exactly the standard's: earlier elements are never moved.
   Specific scenarios (drivers/stability.cxx): member sequences grow only at their end and an earlier lookup keeps its answer; a token
     keeps its location when the client reuses its own location object; a unified node is found again and reads as before after other
     requests.
   Frames proved elsewhere and run here as well: the arena never writes into a block handed out earlier (C03 allocate / make_string),
     tree rotations and fix-up never touch an element, only links and colours (C08 K1 frames), unified names keep their operands
     when related requests follow (C04 cross requests)."""
import os, re
import ipv, factories as F
from ipv import Unit, Ob, Undecided, VERIF, BUILD
import C02

UNIFYING = ('make_literal', 'make_template_id')


def scenarios(tier, seed):
    obs = []
    # specific scenarios
    if '-I' + os.path.join(VERIF, 'drivers') not in ipv.CLANG_ARGS:
        ipv.CLANG_ARGS.append('-I' + os.path.join(VERIF, 'drivers'))
    SC = dict(parameters=['a name looked up earlier still yields the same overload set after more members were added', 'new members go at the end; earlier members keep their index', 'an earlier member reads as before', 'members are distinct objects'],
              token_location=['a token keeps the location it was given after the client changed its own location object', 'a token reports the spelling, value and category it was given'],
              unified=['the same request returns the node obtained earlier, whatever was requested in between', 'the node obtained earlier reads as before'],
              warehouse=['a product / sum asked through a Warehouse holds its elements in order', 'the node is keyed on the Lexicon\'s own copy of the contents, not on the caller\'s object', 'the nodes read as before after the caller changed its warehouse', 'equal contents in another warehouse yield the same nodes', 'different contents yield a different node'],
              redeclaration=['a declaration obtained earlier keeps its master, name, type and position when it is redeclared', 'a primary template obtained earlier still reports itself as the primary template after it is redeclared', 'the redeclaration joins the earlier declaration\'s declaration-set at its end'])
    sn = {'st_' + k: 'drv::st_' + k for k in SC}
    su = Unit('scenarios', 'drivers/stability.cxx', roots=sorted(sn.values()), names=sn)
    def mksgen(k):
        def gen(unit):
            fn = unit.by_name[unit.resolve_name('st_' + k)]
            ret, cname, cps = F.cparams(fn['sig'])
            t = F.PRELUDE_C + F.ext_models(unit) + 'void h_st_%s(void)\n{\n' % k
            args = []
            pooled = F.pooled_type_and_forall(cps)
            if pooled:
                t += pooled[0]
            for i, (ct, pn) in enumerate(cps):
                if pooled and pn in pooled[1]:
                    args.append(pn); continue
                if k in ('unified', 'warehouse') and pn in ('v_t', 'v_u'):
                    # operand types from one array: their address order (what the tables' comparators look at) is fixed, so the real
                    # red-black inserts run on constants; tree shapes for arbitrary orders are C08's business
                    if pn == 'v_t':
                        t += '  static %s type_pool[2];\n' % ct[:-1].strip()
                    t += '  %s %s = &type_pool[%d];\n' % (ct, pn, 0 if pn == 'v_t' else 1)
                else:
                    t += ('  %s %s = NEWZ(%s);\n' % (ct, pn, ct[:-1].strip())) if 'Lexicon' in ct else F.operand_decl(ct, pn, i)
                args.append(pn)
            t += '  unsigned bad = %s(%s);\n' % (cname, ', '.join(args))
            for b, text_ in enumerate(SC[k]):
                t += '  __CPROVER_assert(!(bad & %du), "C05 %s: %s");\n' % (1 << b, k.replace('_', ' '), text_)
            return t + '  IPR_CANARY_POINT();\n}\n', [], dict(scenario=k)
        return gen
    for k in SC:
        o = Ob('C05.scenario.' + k, su, None, 'h_st_' + k, 'stability scenario: ' + k.replace('_', ' '), kind='K1', replay='C05', timeout=240, flags=['--unwind', '12'], objbits=12)
        o.gen = mksgen(k); obs.append(o)
    return [su], obs, {}


def build(tier, seed):
    work = os.path.join(BUILD, 'gen', 'C05'); os.makedirs(work, exist_ok=True)
    recs = F.catalogue(work)
    facs = F.factories(recs)
    head = F.LIB % (ipv.REPO, VERIF) + 'namespace drv {\n'
    items = []
    for f in facs:
        if any(f['name'].startswith(u_) for u_ in UNIFYING):
            continue      # documented to unify: identity and stability of literals and template-ids are C04's two-request obligations
        r = C02.clauses_for(f, recs)
        if r[0] is None:
            continue
        items.append((f, r))
    NCH = 20
    chunks = [items[i:i + NCH] for i in range(0, len(items), NCH)]
    def wrapper(f, r):
        ps = list(f['params']); A = ['a%d' % k for k in range(len(ps))]; B = ['b%d' % k for k in range(len(ps))]
        w = 'unsigned c05_%s(%s& f%s%s)\n{\n' % (f['cid'], f['cls'], ''.join(', %s %s' % (p, a) for p, a in zip(ps, A)), ''.join(', %s %s' % (p, b) for p, b in zip(ps, B)))
        w += '   const auto& n = deref(f.%s(%s));\n   const auto& n2 = deref(f.%s(%s));      // something else is created afterwards\n   const %s& i = n;\n   unsigned bad = 0;\n' % (f['name'], ', '.join(A), f['name'], ', '.join(B), r[3])
        if not any(f['name'].startswith(u_) for u_ in UNIFYING):
            w += '   if (static_cast<const void*>(&n) == static_cast<const void*>(&n2)) bad |= 1u;\n'
        for k, (cond, text) in enumerate(r[0]):
            w += '   if (!(%s)) bad |= %du;\n' % (cond, 2 << k)
        return w + '   return bad;\n}\n', [c[1] for c in r[0]]
    texts = {}
    def make_unit(ci, chunk):
        text, spans = head, {}
        line = text.count('\n') + 1
        for f, r in chunk:
            w, cl = wrapper(f, r); texts[f['cid']] = cl
            n = w.count('\n'); spans[f['cid']] = (line, line + n - 1); line += n; text += w
        text += '}\n'
        fname = 'c05_driver_%02d.cxx' % ci
        text, dropped = F.syntax_filter(text, spans, work, fname)
        names = {'w_' + f['cid']: 'drv::c05_' + f['cid'] for f, _ in chunk if f['cid'] not in dropped}
        u = Unit('stability%02d' % ci, os.path.join(work, fname), roots=sorted(names.values()), names=names)
        u.lower(os.path.join(work, 'lowered'))
        return u, dropped
    import concurrent.futures
    with concurrent.futures.ThreadPoolExecutor(max_workers=8) as ex:
        made = list(ex.map(lambda a: make_unit(*a), enumerate(chunks)))
    obs, units, uncovered = [], [], {}
    def mkgen(f):
        def gen(unit):
            fn = unit.by_name[unit.resolve_name('w_' + f['cid'])]
            ret, cname, cps = F.cparams(fn['sig'])
            t = F.PRELUDE_C + F.ext_models(unit, slots=6) + 'void h_%s(void)\n{\n' % f['cid']
            args = []
            for k, (ct, pn) in enumerate(cps):
                t += ('  %s %s = NEWZ(%s);\n' % (ct, pn, ct[:-1].strip())) if k == 0 else F.operand_decl(ct, pn, k)
                args.append(pn)
            t += '  unsigned bad = %s(%s);\n' % (cname, ', '.join(args))
            who = '%s::%s' % (f['cls'].split('::')[-1], f['id'])
            t += '  __CPROVER_assert(!(bad & 1u), "C05 %s: a second call yields a node distinct from the one returned before");\n' % who
            for k, text_ in enumerate(texts[f['cid']]):
                t += '  __CPROVER_assert(!(bad & %du), "C05 %s: after another node was created the first still reports: %s");\n' % (2 << k, who, text_.replace('"', "'"))
            t += '  IPR_CANARY_POINT();\n}\n'
            return t, [], dict(factory=f['cls'] + '::' + f['name'])
        return gen
    for (u, dropped), chunk in zip(made, chunks):
        units.append(u)
        nobody = set(x['qualified'] for x in u.json['no_body'])
        for f, r in chunk:
            if f['cid'] in dropped:
                uncovered[f['id']] = 'wrapper rejected by clang: ' + dropped[f['cid']][:160]; continue
            if f['cls'] + '::' + f['name'] in nobody:
                uncovered[f['id']] = 'declared but never defined'; continue
            o = Ob('C05.two.%s.%s' % (f['cls'].split('::')[-1], f['id']), u, None, 'h_' + f['cid'], '%s::%s called twice: distinct nodes; the first node reads exactly as before after the second was created' % (f['cls'], f['name']),
                   kind='K1', replay='C05', timeout=600, flags=['--unwind', '12'], objbits=12)
            o.gen = mkgen(f); obs.append(o)
    ntwo = len(obs)
    su_l, so_l, _ = scenarios(tier, seed)
    su = su_l[0]; obs += so_l; sn = dict(su.names)
    # frames proved for other properties
    import C03, C08, C04
    extra_units, extra_obs = [], []
    for mod, keep, tag in ((C03, lambda o: o.id.startswith('C03.arena.'), 'frame.arena'), (C08, lambda o: o.id.startswith('C08.K1.'), 'frame.tree'), (C04, lambda o: 'then' in o.id or '_word' in o.id, 'frame.names')):
        uu, oo, mm = mod.build(tier, seed)
        oo = [o for o in oo if keep(o)]
        for o in oo:
            o.id = 'C05.%s.%s' % (tag, o.id.split('.', 1)[1])
        extra_units += uu; extra_obs += oo
    meta = dict(sweep_family='C05', functions_under_contract=sorted(set(f['cls'] + '::' + f['name'] for f, _ in items)) + sorted(sn.values()), factories_covered=ntwo, not_covered=uncovered,
                assumptions=['std::forward_list / std::deque: existing elements are never moved, copied or freed by later insertions (the standard\'s guarantee, restated in harness/flmodel.h and seqmodel.h); std::vector<const void*> only holds pointer values',
                             'stability across ONE further creation by the same factory, from the state of a freshly constructed factory; L-history (DESIGN.md 5.3) lifts it to any number of later creations, since no factory function writes to a node it did not just create (frames: the lowered make_* bodies only call the new node\'s constructor and the farm\'s emplace_front)',
                             'all node classes are immotile (deleted copy / move): K6 fact from clang, not re-checked here'])
    return units + [su] + extra_units, obs + extra_obs, meta
