"""C19: destroying a Lexicon frees all its memory; live use never touches dead storage.   BOUNDED (model-checking level).
   What a function contract can say here is local: every allocation made by the owning red-black container (make_node) and by the
   string arena (pools) is released by the owner's destructor.  Both destructors walk an unbounded heap shape (a tree, a pool chain),
   which cbmc cannot close by induction, so these are bounded obligations: symbolic construction histories of <= 4 insertions /
   <= 3 interned words (lengths symbolic up to beyond one pool, so the roll-over and the oversize path are both reached) followed
   by the REAL lowered destructor, under cbmc's memory-leak, pointer and bounds checks (use after free, writes outside a block).
   The arena's own memory-safety contracts (C03: allocate, make_string) are run here too."""
import os
import ipv
from ipv import Unit, Ob, VERIF

H = r'''
#ifndef NK
#define NK 3
#endif
#ifndef LMAX
#define LMAX 64
#endif
#ifndef NW
#define NW 2
#endif
unsigned char* @{std_copy}(unsigned char* first, unsigned char* last, unsigned char* out)
{ long n = last - first; __CPROVER_assert(n >= 0, "std::copy: valid range");
  if (n > 0) { __CPROVER_assert(__CPROVER_r_ok(first, n), "C19: the characters copied are read from live storage"); __CPROVER_assert(__CPROVER_w_ok(out, n), "C19: the characters are written inside the block obtained for them"); out[0] = first[0]; out[n - 1] = first[n - 1]; }
  return out + n; }
void h_tree(void)
{
  long k0, k1, k2, k3; int n; __CPROVER_assume(0 <= n && n <= NK);
  @{l_tree}(k0, k1, k2, k3, n);
  IPR_CANARY_POINT();
}
/* the arena's destructor from ANY state the arena can be in (C03's representation invariant: `mem` heads a null-terminated chain of
   pools linked by `previous`, each obtained from operator new): chains of <= 3 pools.  The destructor only reads `previous`, so the
   pools are modelled by blocks holding just that field -- a 1 MiB pool costs cbmc gigabytes and adds nothing to this question. */
void h_arena(void)
{
  struct S_ZTSN3ipr4util6string5arenaE* a = malloc(sizeof *a); __CPROVER_assume(a != 0);
  int n; __CPROVER_assume(0 <= n && n <= 3);
  struct S_ZTSN3ipr4util6string5arena4poolE* chain = 0;
  for (int i = 0; i < 3; i++) if (i < n) { struct S_ZTSN3ipr4util6string5arena4poolE* p = malloc(sizeof(void*)); __CPROVER_assume(p != 0); *(void**)p = chain; chain = p; }
  a->f_mem = chain; a->f_next_header = 0;
  @{arena_dtor}(a);
  __CPROVER_assert(a->f_mem == 0, "C19: the destructor leaves no pool linked");
  free(a);
  IPR_CANARY_POINT();
}
'''


def build(tier, seed):
    if '-I' + os.path.join(VERIF, 'drivers') not in ipv.CLANG_ARGS:
        ipv.CLANG_ARGS.append('-I' + os.path.join(VERIF, 'drivers'))
    u = Unit('lifetime', 'drivers/lifetime.cxx', prefixes=['drv::l_'], names=dict(l_tree='drv::l_tree', l_arena='drv::l_arena', arena_dtor='ipr::util::string::arena::~arena'))
    u.std = dict(std_copy=('std::copy', 'PKDu'))
    nk = 3 if tier == 'quick' else 4
    def gen(unit):
        return H, [], {}
    obs = []
    o = Ob('C19.container.dtor', u, None, 'h_tree', 'owning container: every history of <= %d insertions of symbolic keys (duplicates included), then the destructor: every node allocated by make_node is released exactly once, nothing is touched after release' % nk,
           kind='K5', replay='C19', timeout=1500, flags=['--unwind', str(nk + 3), '--memory-leak-check'], defines=['IPR_ALLOC_IS_MALLOC', 'NK=%d' % nk], bounded='<= %d insertions' % nk)
    o.gen = gen; obs.append(o)
    o = Ob('C19.arena.dtor', u, None, 'h_arena', 'string arena: the real destructor from every pool chain of <= 3 pools (any state the arena can be in, by C03\'s representation invariant): every pool is released exactly once, none is touched after release',
           kind='K5', replay='C19', timeout=900, flags=['--unwind', '6', '--memory-leak-check'], defines=['IPR_ALLOC_IS_MALLOC'], bounded='pool chains of <= 3 pools')
    o.gen = gen; obs.append(o)
    import C03
    u3, o3, m3 = C03.build(tier, seed)
    o3 = [x for x in o3 if x.id.startswith('C03.arena.')]
    for x in o3:
        x.id = 'C19.' + x.id.split('.', 1)[1]
    # live use stays inside live objects: decomposition of ANY 64-bit specifier / qualifier value (the enumerations are open) under the
    # bounds and pointer checks -- C10's obligations on the real tables
    import C10
    u10, o10, m10 = C10.build(tier, seed)
    o10 = [x for x in o10 if x.id in ('C10.decompose.any', 'C10.decompose.qualifiers')]
    for x in o10:
        x.id = 'C19.live.' + x.id.split('.', 1)[1]
    o3 += o10; u3 += u10
    meta = dict(level='model_checking', sweep_family='C19', always_sweep=True, functions_under_contract=['rb_tree::container<T>::~container', 'container::destroy_tree', 'container::destroy_node', 'container::make_node', 'container::insert', 'arena::arena', 'arena::~arena', 'arena::allocate', 'arena::make_string'],
                rule='bounded symbolic construction histories followed by the real destructor under --memory-leak-check; distinct = obligations',
                assumptions=['bounded: <= %d insertions, <= 3 interned words; the container is instantiated at long keys (the template body is the same for every element type; element destructors run through destroy_node)' % nk,
                             'members that are standard containers (farms, sequences, the hash map of the string pool) free what they own: assumed of the standard library, not checked',
                             'operator new / delete = malloc / free of cbmc\'s library model in these obligations',
                             'process-wide mutable state (a static that outlives its Lexicon) is out of reach of a per-call contract: reported as a K6 fact (no mutable static-storage object under the functions lowered) and by the native sweep'])
    return [u] + u3, obs + o3, meta
