"""C02: every factory-built node reports exactly the operands it was built from.  One obligation per factory member function
enumerated from the class catalogue of the current tree (lib/factories.py)."""
import os, re
import ipv, factories as F
from ipv import Unit, Ob, Undecided, VERIF, BUILD

ACC = {1: ['operand()'], 2: ['first()', 'second()'], 3: ['first()', 'second()', 'third()'], 4: ['first()', 'second()', 'third()', 'fourth()']}

# Irregular factories: explicit read-back clauses, written from the comments of <ipr/interface>, <ipr/cxx-form>, <ipr/attribute>
# (NOT from the implementation).  {factory id: [(C++ condition over i = interface view, n = implementation node, a0.., text)]}
EXPLICIT = {
    'make_binary_fold': [('same(i.operation(), a0)', 'operation() is the category code given'), ('same(i.first(), a1)', 'first() is the left operand x of (x op ... op y)'), ('same(i.second(), a2)', 'second() is the right operand y'),
                         ('!a3.is_valid() || same(i.type(), a3)', 'type() is exactly the type given at construction')],
    'make_instantiation': [('same(i.pattern(), a0)', 'pattern() is the expression instantiated'), ('same(i.substitution(), a1)', 'substitution() is the substitution given'), ('!i.instance().is_valid()', 'instance() reads as absent until one is supplied')],
    'make_if.0': [('same(i.condition(), a0)', 'condition() is the first argument'), ('same(i.consequence(), a1)', 'consequence() is the second argument'), ('!i.alternative().is_valid()', 'alternative() reads as absent for the two-argument form')],
    'make_id_expr.0': [('same(i.name(), a0.name())', 'name() is the name of the declaration referred to'), ('same(i.resolution(), a0)', 'resolution() is the declaration given')],
    'make_construction': [('same(i.arguments(), a1)', 'arguments() is the enclosure given'), ('same(i.type(), a0)', 'type() is the type T being constructed (interface comment on Construction)')],
    'make_asm': [('i.expression().category == Category_code::Asm && same(static_cast<const ipr::Asm&>(i.expression()).text(), a0)', 'expression() is an asm-expression over the text given'), ('i.phases() == Phases::Code_generation', 'an asm-declaration is evaluated at code generation')],
    'make_static_assert': [('i.expression().category == Category_code::Static_assert && same(static_cast<const ipr::Static_assert&>(i.expression()).condition(), a0)', 'expression() is a static-assertion over the condition given'),
                           ('i.expression().category == Category_code::Static_assert && same(static_cast<const ipr::Static_assert&>(i.expression()).message(), a1)', 'its message is the one given, absent when none was'), ('i.phases() == Phases::Elaboration', 'a static assertion is evaluated at elaboration')],
    'make_phased_evaluation': [('same(i.expression(), a0)', 'expression() is the expression given'), ('same(i.phases(), a1)', 'phases() is the phase set given')],
    'make_using_declaration.0': [('i.designators().size() == 1', 'a single using-declarator'), ('i.designators().size() == 1 && same(i.designators().begin()->path(), a0)', 'its path is the qualified name given'),
                                 ('i.designators().size() == 1 && i.designators().begin()->mode() == a1', 'its mode is the one given')],
    'make_using_directive': [('same(i.nominated_scope(), a0)', 'nominated_scope() is the scope given'), ('same(i.type(), a1)', 'type() is the type given at construction')],
}
UNCOVERED_BY_DESIGN = {'make_elementary_substitution': 'decided by C16 (a substitution is read through operator[])', 'make_general_substitution': 'decided by C16',
                       'make_literal.1': 'the word is interned first (C03, C04) and the String overload make_literal.0 is covered', 'make_token': 'declared in <ipr/impl> but never defined'}


DEFERRED = {'const ipr::Region &': 'the region argument becomes the enclosing region of the node (decided by C12)',
            'ipr::Mapping_level': 'the nesting level is reported by the parameter list (decided by C12)'}
NOT_OPERANDS = ('type', 'accept', 'category')


def clauses_for(f, records):
    """[(C++ condition, text)] or (None, reason).  Rules, in this order:
       explicit table; a trailing Optional<Type> parameter is type(); region / level parameters are C12's; then the remaining
       parameters map to operand() | first(), second(), third(), fourth() in order when the interface has exactly those; otherwise
       parameters are matched with the interface's accessors BY TYPE, in declaration order among accessors of one type."""
    ps = list(zip(f['params_canon'], ['a%d' % k for k in range(len(f['params']))]))
    if f['id'] in UNCOVERED_BY_DESIGN:
        return None, UNCOVERED_BY_DESIGN[f['id']]
    impl = F.pointee(f['ret_canon'])
    iface = F.interface_of(records, impl)
    if f['id'] in EXPLICIT:
        return list(EXPLICIT[f['id']]), None, [], iface
    if iface not in records:
        return None, 'interface class %s of %s is not in the catalogue' % (iface, impl)
    accs = [a for a in F.accessors(records, iface) if a['name'] not in NOT_OPERANDS]
    names = [a['name'] for a in accs]
    cl, deferred = [], []
    ops = []
    for p, a in ps:
        if p in DEFERRED:
            deferred.append(DEFERRED[p])
        else:
            ops.append((p, a))
    if ops and ops[-1][0] == 'ipr::Optional<ipr::Type>' and 'type' in [a['name'] for a in F.accessors(records, iface)] and not any(F.tkey(a['ret']) == 'ipr::Type' and 'Optional' in a['ret'] for a in accs):
        t = ops.pop()[1]
        cl.append(('!%s.is_valid() || same(i.type(), %s)' % (t, t), 'type() is exactly the type given at construction'))
    # a trailing `const Type&` that is one operand too many for the interface is the type given at construction (conversions)
    n_op = len([n for n in names if n in ('operand', 'first', 'second', 'third', 'fourth')])
    if ops and ops[-1][0] == 'const ipr::Type &' and not [c for c in cl if 'type()' in c[0]] and len(ops) - 1 == n_op and n_op >= 0 and (n_op > 0 or len(names) == 0):
        t = ops.pop()[1]
        cl.append(('same(i.type(), %s)' % t, 'type() is exactly the type given at construction'))
    positional = ACC.get(len(ops))
    if positional and all(x[:-2] in names for x in positional) and not any(n in names for n in ('operand', 'first', 'second', 'third', 'fourth') if n + '()' not in positional):
        for (p, a), acc in zip(ops, positional):
            cl.append(('same(i.%s, %s)' % (acc, a), '%s is argument %s (%s)' % (acc, a[1:], p)))
    else:
        bykey_p, bykey_a = {}, {}
        for p, a in ops:
            bykey_p.setdefault(F.tkey(p), []).append((p, a))
        for a in accs:
            bykey_a.setdefault(F.tkey(a['ret']), []).append(a)
        for k, pl in bykey_p.items():
            al = bykey_a.get(k, [])
            if len(al) != len(pl):
                return None, 'cannot match %d argument(s) of type %s with the %d accessor(s) of that type of %s: needs an explicit entry' % (len(pl), k, len(al), iface)
            for (p, a), acc in zip(pl, al):
                cl.append(('same(i.%s(), %s)' % (acc['name'], a), '%s() is argument %s (%s)' % (acc['name'], a[1:], p)))
    return cl, None, deferred, iface


def wrapper(f, records):
    """C++ text of the wrapper and the list of clause texts (bit k of the result = clause k failed)"""
    r = clauses_for(f, records)
    if r[0] is None:
        return None, [r[1]]
    clauses = list(r[0])
    if 'ipr::Node' in F.bases_of(records, r[3]):
        clauses.append(('i.category == ipr::Category_code::%s' % r[3].split('::')[-1], 'the node carries the category code named like its own interface class'))
    ps = list(f['params']); names = ['a%d' % k for k in range(len(ps))]
    t = 'unsigned c02_%s(%s& f%s, const void** out)\n{\n' % (f['cid'], f['cls'], ''.join(', %s %s' % (p, a) for p, a in zip(ps, names)))
    t += '   const auto& n = deref(f.%s(%s)); *out = &n;\n   const %s& i = n;      // the interface class a client sees\n   unsigned bad = 0;\n' % (f['name'], ', '.join(names), r[3])
    for k, (cond, text) in enumerate(clauses):
        t += '   if (!(%s)) bad |= %du;\n' % (cond, 1 << k)
    t += '   return bad;\n}\n'
    return t, [c[1] for c in clauses]


def build(tier, seed, only=None):
    work = os.path.join(BUILD, 'gen', 'C02'); os.makedirs(work, exist_ok=True)
    recs = F.catalogue(work)
    facs = F.factories(recs)
    text = F.LIB % (ipv.REPO, VERIF) + 'namespace drv {\n'
    spans, clause_texts, uncovered = {}, {}, {}
    line = text.count('\n') + 1
    for f in facs:
        w, cl = wrapper(f, recs)
        if w is None:
            uncovered[f['id']] = cl[0]; continue
        n = w.count('\n')
        spans[f['cid']] = (line, line + n - 1); line += n
        text += w; clause_texts[f['cid']] = cl
    text += '}\n'
    text, dropped = F.syntax_filter(text, spans, work, 'c02_driver.cxx')
    byc = {f['cid']: f for f in facs}
    for c, msg in dropped.items():
        uncovered[byc[c]['id']] = 'wrapper rejected by clang (rule does not fit): ' + msg[:160]
    live = [f for f in facs if f['cid'] in spans and f['cid'] not in dropped]
    names = {'w_' + f['cid']: 'drv::c02_' + f['cid'] for f in live}
    u = Unit('factories', os.path.join(work, 'c02_driver.cxx'), prefixes=['drv::c02_'], names=names)
    u.lower(os.path.join(work, 'lowered'))
    nobody = set(x['qualified'] for x in u.json['no_body'])
    for f in list(live):
        if f['cls'] + '::' + f['name'] in nobody:
            uncovered[f['id']] = 'declared in <ipr/impl> but never defined (no body in the translation unit)'; live.remove(f)
    obs = []
    def mkgen(f):
        def gen(unit):
            fn = unit.by_name[unit.resolve_name('w_' + f['cid'])]
            ret, cname, cps = F.cparams(fn['sig'])
            t = F.PRELUDE_C + F.ext_models(unit)
            t += 'void h_%s(void)\n{\n' % f['cid']
            args = []
            for k, (ct, pn) in enumerate(cps):
                if k == 0:
                    t += '  %s %s = NEWZ(%s);      /* the factory: state of a freshly constructed object */\n' % (ct, pn, ct[:-1].strip())
                elif k == len(cps) - 1:
                    t += '  void* out = 0;\n'
                    args.append('&out'); continue
                else:
                    t += F.operand_decl(ct, pn, k)
                args.append(pn)
            t += '  unsigned bad = %s(%s);\n' % (cname, ', '.join(args))
            for k, text_ in enumerate(clause_texts[f['cid']]):
                t += '  __CPROVER_assert(!(bad & %du), "C02 %s::%s: %s");\n' % (1 << k, f['cls'].split('::')[-1], f['id'], text_.replace('"', "'"))
            t += '  __CPROVER_assert(out != 0, "C02 %s: a node is returned");\n  IPR_CANARY_POINT();\n}\n' % f['id']
            return t, [], dict(factory=f['cls'] + '::' + f['name'], params=f['params'])
        return gen
    for f in live:
        o = Ob('C02.%s.%s' % (f['cls'].split('::')[-1], f['id']), u, None, 'h_' + f['cid'],
               '%s::%s(%s): every operand, flag and the given type are read back through the interface accessors (real final overriders, dynamic dispatch); category code of the interface class' % (f['cls'], f['name'], ', '.join(f['params'])),
               kind='K1', replay='C02', timeout=600, flags=['--unwind', '12'], objbits=12)
        o.gen = mkgen(f); obs.append(o)
    meta = dict(sweep_family='C02', functions_under_contract=sorted(f['cls'] + '::' + f['name'] for f in live),
                factories_catalogued=len(facs), factories_covered=len(live), driver=os.path.join(work, 'c02_driver.cxx'), factories_not_covered=uncovered,
                assumptions=['std::forward_list::emplace_front = new node constructed in place and linked in front, earlier nodes untouched (harness/flmodel.h); operator new returns fresh storage',
                             'operands are arbitrary foreign nodes, pairwise distinct; accessors a factory calls on an operand are arbitrary functions of the receiver',
                             'the factory object is in the state of a freshly constructed Lexicon (empty tables); generative factories do not read their farms'])
    # factories of unified nodes (types, names, atoms) and member sequences report what they were given too: those obligations belong to
    # C01 / C04 / C11 / C14 and are run here as well (their assertions labelled C02 are the read-back clauses)
    import C04, C11, C14, C05
    class C05S:      # only the scenario unit of C05 (its generated part would build every factory twice again)
        @staticmethod
        def build(tier, seed):
            return C05.scenarios(tier, seed)
    xu, xo = [], []
    for mod, keep in ((C04, lambda o: o.id.startswith('C04.get.')), (C11, lambda o: o.id == 'C11.get_qualified'), (C14, lambda o: o.id in ('C14.prim.obj_list', 'C14.prim.obj_list_interleaved', 'C14.prim.obj_sequence', 'C14.prim.ref_sequence')), (C05S, lambda o: o.id == 'C05.scenario.token_location')):
        uu, oo, mm = mod.build(tier, seed)
        oo = [o for o in oo if keep(o)]
        for o in oo:
            o.id = 'C02.also.' + o.id
        xu += [x for x in uu if any(o.unit is x for o in oo)]; xo += oo
    return [u] + xu, obs + xo, meta
