"""C06: category code, accept() and visitor defaults agree for every node class.
   CAT + ACCEPT: one obligation per factory member function (same enumeration as C02): the node built by the real factory carries the
     code of its own interface class, and accept() calls exactly once the hook clang's overload resolution selects for that interface
     class, with the node itself -- checked with a visitor that overrides EVERY hook (generated from the catalogue's ipr::Visitor).
   DEFAULT: one obligation per non-pure hook of ipr::Visitor: the real default body (src/traversal.cxx) hands the node, exactly once,
     to the hook of the super-category DECLARED in the interface (the B of Category<code, B>, resolved to the nearest base that has a
     hook by overload resolution) -- the expectation comes from <ipr/interface>, not from traversal.cxx.
   VIEW: util::view<K> on a factory-built node yields the node for its own category and nothing for other leaf categories
     (own category + two other leaf categories per node class; the general statement follows from ACCEPT + DEFAULT, see DESIGN.md)."""
import os, re
import ipv, factories as F
from ipv import Unit, Ob, Undecided, VERIF, BUILD

LIBX = '#include <traversal.cxx>\n'



# nodes no factory hands out directly: made by scopes, regions, blocks, mappings, enumerations, classes; and the built-in constants
EXTRA = [
  ('eh_parameter', 'impl::Lexicon& lx, const ipr::Region& r, const ipr::Name& n, const ipr::Type& t', 'const ipr::EH_parameter& i = lx.make_block(r)->new_handler(n, t)->exception();'),
  ('handler', 'impl::Lexicon& lx, const ipr::Region& r, const ipr::Name& n, const ipr::Type& t', 'const ipr::Handler& i = *lx.make_block(r)->new_handler(n, t);'),
  ('handler_body', 'impl::Lexicon& lx, const ipr::Region& r, const ipr::Name& n, const ipr::Type& t', 'const ipr::Block& i = static_cast<const ipr::Handler&>(*lx.make_block(r)->new_handler(n, t)).body();'),
  ('parameter', 'impl::Lexicon& lx, const ipr::Region& r, ipr::Mapping_level l, const ipr::Name& n, const ipr::Type& t', 'const ipr::Parameter& i = *lx.make_mapping(r, l)->param(n, t);'),
  ('parameter_list', 'impl::Lexicon& lx, const ipr::Region& r, ipr::Mapping_level l', 'const ipr::Parameter_list& i = lx.make_mapping(r, l)->parameters();'),
  ('enumerator', 'impl::Lexicon& lx, const ipr::Region& r, ipr::Enum::Kind k, const ipr::Name& n', 'const ipr::Enumerator& i = *lx.make_enum(r, k)->add_member(n);'),
  ('base_type', 'impl::Lexicon& lx, const ipr::Region& r, const ipr::Type& t', 'const ipr::Base_type& i = *lx.make_class(r)->declare_base(t);'),
  ('subregion', '', 'auto& r = *new impl::Region{ Optional<ipr::Region>{ } }; const ipr::Region& i = *r.make_subregion();'),
  ('scope', '', 'auto& r = *new impl::Region{ Optional<ipr::Region>{ } }; const ipr::Scope& i = static_cast<const ipr::Region&>(*r.make_subregion()).bindings();'),
  ('var', 'const ipr::Name& n, const ipr::Type& t', 'auto& r = *new impl::Region{ Optional<ipr::Region>{ } }; const ipr::Var& i = *r.declare_var(n, t);'),
  ('field', 'const ipr::Name& n, const ipr::Type& t', 'auto& r = *new impl::Region{ Optional<ipr::Region>{ } }; const ipr::Field& i = *r.declare_field(n, t);'),
  ('bitfield', 'const ipr::Name& n, const ipr::Type& t', 'auto& r = *new impl::Region{ Optional<ipr::Region>{ } }; const ipr::Bitfield& i = *r.declare_bitfield(n, t);'),
  ('typedecl', 'const ipr::Name& n, const ipr::Type& t', 'auto& r = *new impl::Region{ Optional<ipr::Region>{ } }; const ipr::Typedecl& i = *r.declare_type(n, t);'),
  ('fundecl', 'const ipr::Name& n, const ipr::Function& t', 'auto& r = *new impl::Region{ Optional<ipr::Region>{ } }; const ipr::Fundecl& i = *r.declare_fun(n, t);'),
  ('alias', 'const ipr::Name& n, const ipr::Type& t', 'auto& r = *new impl::Region{ Optional<ipr::Region>{ } }; const ipr::Alias& i = *r.declare_alias(n, t);'),
  ('template', 'const ipr::Name& n, const ipr::Forall& t', 'auto& r = *new impl::Region{ Optional<ipr::Region>{ } }; const ipr::Template& i = *r.declare_primary_template(n, t);'),
  ('overload', 'const ipr::Name& n, const ipr::Type& t', 'auto& r = *new impl::Region{ Optional<ipr::Region>{ } }; r.declare_var(n, t); const ipr::Overload& i = static_cast<const ipr::Region&>(r).bindings()[n].get();'),
  ('builtin_type', 'impl::Lexicon& lx', 'const ipr::As_type& i = static_cast<const ipr::As_type&>(lx.int_type());'),
  ('true_constant', 'impl::Lexicon& lx', 'const ipr::Symbol& i = lx.true_value();'),
  ('nullptr_constant', 'impl::Lexicon& lx', 'const ipr::Symbol& i = lx.nullptr_value();'),
  ('nullptr_type', 'impl::Lexicon& lx', 'const ipr::Decltype& i = static_cast<const ipr::Decltype&>(static_cast<const ipr::Expr&>(lx.nullptr_value()).type());'),
  ('empty_string', '', 'const ipr::String& i = ipr::String::empty_string();'),
  ('reserved_identifier', 'impl::Lexicon& lx', 'const ipr::Identifier& i = static_cast<const ipr::Identifier&>(lx.int_type().name());'),
]


def node_factories(recs, facs):
    """factories whose result is an ipr::Node (has accept(ipr::Visitor&))"""
    out = []
    for f in facs:
        impl = F.pointee(f['ret_canon'])
        if 'ipr::Node' in F.bases_of(recs, impl):
            out.append(f)
    return out


def build(tier, seed):
    work = os.path.join(BUILD, 'gen', 'C06'); os.makedirs(work, exist_ok=True)
    recs = F.catalogue(work)
    facs = node_factories(recs, [f for f in F.factories(recs) if f['id'] != 'make_literal.1'])      # make_literal.1 interns its word first (C03/C04); the String overload is covered
    hs = F.hooks(recs)
    leaf = [h for h in hs if not h['pure'] and h['cls'].split('::')[-1] not in F.HOOK_SINKS]
    head = F.LIB % (ipv.REPO, VERIF) + LIBX + F.visitor_text(hs) + 'namespace drv {\n'
    head += ('   template<class I> inline unsigned accept_bad(const I& i)\n   {\n      Rec v; i.accept(v); unsigned bad = 0;\n      if (v.calls != 1) bad |= 1u;\n      if (v.id != hook_id(i)) bad |= 2u;\n'
             '      if (v.who != static_cast<const void*>(static_cast<const ipr::Node*>(&i))) bad |= 4u;\n      return bad;\n   }\n')
    head += '   inline int super_hook_id(const ipr::Classic& x) { return hook_id(static_cast<const ipr::Expr&>(x)); }      // Classic is declared `struct Classic : Expr`\n'
    others = {}
    def node_wrapper(k, f):
        ps = list(f['params']); names = ['a%d' % j for j in range(len(ps))]
        ifc = F.interface_of(recs, F.pointee(f['ret_canon']))
        w = 'unsigned c06_%s(%s& f%s)\n{\n   const auto& n = deref(f.%s(%s));\n   const %s& i = n;\n   unsigned bad = accept_bad(i);\n' % (
            f['cid'], f['cls'], ''.join(', %s %s' % (p, a) for p, a in zip(ps, names)), f['name'], ', '.join(names), ifc)
        # the category code is the enumerator SPELLED LIKE the interface class (independent of the Category<> base it declares)
        w += '   if (i.category != ipr::Category_code::%s || static_code(i) != ipr::Category_code::%s) bad |= 8u;\n' % (ifc.split('::')[-1], ifc.split('::')[-1])
        # VIEW: own category, and two other leaf categories (chosen by position in the hook list, so every leaf serves as "other")
        o1, o2 = leaf[(3 * k + 1) % len(leaf)]['cls'], leaf[(7 * k + 5) % len(leaf)]['cls']
        others[f['cid']] = (o1, o2)
        w += '   using I = std::remove_cvref_t<decltype(i)>;\n   if (util::view<I>(i) != &i) bad |= 16u;\n'
        w += '   if (!std::is_same_v<I, %s> && util::view<%s>(i) != nullptr) bad |= 32u;\n   if (!std::is_same_v<I, %s> && util::view<%s>(i) != nullptr) bad |= 32u;\n' % (o1, o1, o2, o2)
        return w + '   return bad;\n}\n'
    def hook_wrapper(k, h):
        return 'int c06_default_%d(const %s& x)\n{\n   Rec v; v.ipr::Visitor::visit(x);\n   if (v.calls != 1 || v.who != static_cast<const void*>(static_cast<const ipr::Node*>(&x))) return -2;\n   return v.id == super_hook_id(x) ? 1 : 0;\n}\n' % (k, h['cls'])
    # the driver is split into chunks (one lowered unit each): a unit with all 124 view<> visitors is 11 MB of C and costs 20 s per obligation
    items = [('n', k, f) for k, f in enumerate(facs)] + [('d', k, h) for k, h in enumerate(hs) if not h['pure']] + [('x', k, dict(cid='x_' + e[0], id=e[0], sig=e[1], body=e[2], cls='(no factory)', name=e[0])) for k, e in enumerate(EXTRA)]
    NCH, DCH = 12, 40
    chunks, cur = [], []
    for it in items:
        lim = DCH if it[0] == 'd' else NCH
        if cur and (cur[0][0] != it[0] or len(cur) >= lim):
            chunks.append(cur); cur = []
        cur.append(it)
    if cur:
        chunks.append(cur)
    uncovered, units, obs = {}, [], []
    def make_unit(ci, chunk):
        text, spans = head, {}
        line = text.count('\n') + 1
        for kind, k, x in chunk:
            key = x['cid'] if kind != 'd' else 'd%d' % k
            w = node_wrapper(k, x) if kind == 'n' else hook_wrapper(k, x) if kind == 'd' else 'unsigned c06_%s(%s)\n{\n   %s\n   unsigned bad = accept_bad(i);\n   if (i.category != ipr::Category_code::%s || static_code(i) != ipr::Category_code::%s) bad |= 8u;\n   using I = std::remove_cvref_t<decltype(i)>;\n   if (util::view<I>(i) != &i) bad |= 16u;\n   return bad;\n}\n' % (x['cid'], x['sig'], x['body'], re.search(r'const ipr::(\w+)& i =', x['body']).group(1), re.search(r'const ipr::(\w+)& i =', x['body']).group(1))
            n = w.count('\n'); spans[key] = (line, line + n - 1); line += n; text += w
        text += '}\n'
        fname = 'c06_driver_%02d.cxx' % ci
        text, dropped = F.syntax_filter(text, spans, work, fname)
        names = {}
        for kind, k, x in chunk:
            key = x['cid'] if kind != 'd' else 'd%d' % k
            if key not in dropped:
                names[('w_' + x['cid']) if kind != 'd' else 'd_%d' % k] = 'drv::c06_' + (x['cid'] if kind != 'd' else 'default_%d' % k)
        u = Unit('visiting%02d' % ci, os.path.join(work, fname), roots=sorted(names.values()), names=names)
        u.lower(os.path.join(work, 'lowered'))
        return u, dropped
    import concurrent.futures
    with concurrent.futures.ThreadPoolExecutor(max_workers=8) as ex:
        made = list(ex.map(lambda a: make_unit(*a), enumerate(chunks)))
    def mkgen(f):
        def gen(unit):
            fn = unit.by_name[unit.resolve_name('w_' + f['cid'])]
            ret, cname, cps = F.cparams(fn['sig'])
            t = F.PRELUDE_C + F.ext_models(unit) + 'void h_%s(void)\n{\n' % f['cid']
            args = []
            for k, (ct, pn) in enumerate(cps):
                t += ('  %s %s = NEWZ(%s);\n' % (ct, pn, ct[:-1].strip())) if (k == 0 and ct.endswith('*')) else F.operand_decl(ct, pn, k)
                args.append(pn)
            t += '  unsigned bad = %s(%s);\n' % (cname, ', '.join(args))
            who = '%s::%s' % (f['cls'].split('::')[-1], f['id'])
            t += '  __CPROVER_assert(!(bad & 1u), "C06 %s: accept() calls exactly one visitor hook");\n' % who
            t += '  __CPROVER_assert(!(bad & 2u), "C06 %s: accept() calls the hook of the node\'s own interface class");\n' % who
            t += '  __CPROVER_assert(!(bad & 4u), "C06 %s: the hook receives the node itself");\n' % who
            t += '  __CPROVER_assert(!(bad & 8u), "C06 %s: category is the enumerator named like the node\'s own interface class");\n' % who
            t += '  __CPROVER_assert(!(bad & 16u), "C06 %s: view<K> yields the node for its own category K");\n' % who
            t += '  __CPROVER_assert(!(bad & 32u), "C06 %s: view<K> yields nothing for another leaf category (%s, %s)");\n' % ((who,) + tuple(x.split('::')[-1] for x in others[f['cid']]))
            t += '  IPR_CANARY_POINT();\n}\n'
            return t, [], dict(factory=f['cls'] + '::' + f['name'])
        return gen
    def mkdgen(k, h):
        def gen(unit):
            fn = unit.by_name[unit.resolve_name('d_%d' % k)]
            ret, cname, cps = F.cparams(fn['sig'])
            t = F.PRELUDE_C + F.ext_models(unit) + 'void h_default_%d(void)\n{\n' % k + F.operand_decl(cps[0][0], 'x', 0)
            t += '  int r = %s(x);\n' % cname
            t += '  __CPROVER_assert(r != -2, "C06 default hook of %s: hands the node, exactly once, to one other hook");\n' % h['cls']
            t += '  __CPROVER_assert(r == 1, "C06 default hook of %s: forwards to the hook of the nearest abstract super-category declared in the interface");\n  IPR_CANARY_POINT();\n}\n' % h['cls']
            return t, [], dict(hook=h['cls'])
        return gen
    ncov = dcov = 0
    for (u, dropped), chunk in zip(made, chunks):
        units.append(u)
        nobody = set(x['qualified'] for x in u.json['no_body'])
        for kind, k, x in chunk:
            key = x['cid'] if kind != 'd' else 'd%d' % k
            if key in dropped:
                uncovered[x['id'] if kind != 'd' else x['cls']] = 'wrapper rejected by clang: ' + dropped[key][:160]; continue
            if kind == 'x':
                others[x['cid']] = ('-', '-')
                o = Ob('C06.node.other.' + x['id'], u, None, 'h_' + x['cid'], 'CAT + ACCEPT + VIEW(own category) for a node no factory hands out directly: ' + x['id'].replace('_', ' '), kind='K1', replay='C06', timeout=600, flags=['--unwind', '12'], objbits=12)
                o.gen = mkgen(x); obs.append(o); ncov += 1; continue
            if kind == 'n':
                if x['cls'] + '::' + x['name'] in nobody:
                    uncovered[x['id']] = 'declared but never defined'; continue
                o = Ob('C06.node.%s.%s' % (x['cls'].split('::')[-1], x['id']), u, None, 'h_' + x['cid'], 'CAT + ACCEPT + VIEW for the node built by %s::%s (recording visitor overriding every hook; real accept, real constructor chain)' % (x['cls'], x['name']),
                       kind='K1', replay='C06', timeout=600, flags=['--unwind', '12'], objbits=12)
                o.gen = mkgen(x); obs.append(o); ncov += 1
            else:
                o = Ob('C06.default.' + x['cls'].split('ipr::', 1)[1].replace('::', '_'), u, None, 'h_default_%d' % k, 'DEFAULT: the real body of Visitor::visit(const %s&) forwards the same node once to the hook of the super-category the interface declares' % x['cls'],
                       kind='K1', replay='C06', timeout=600, flags=['--unwind', '12'], objbits=12)
                o.gen = mkdgen(k, x); obs.append(o); dcov += 1
    meta = dict(sweep_family='C06', functions_under_contract=sorted(set(f['cls'] + '::' + f['name'] for f in facs)) + ['ipr::Visitor::visit (%d default hooks)' % dcov, 'ipr::impl::Node<T>::accept', 'ipr::util::view<K>'],
                node_factories=len(facs), node_factories_covered=ncov, hooks=len(hs), default_hooks_covered=dcov, not_covered=uncovered, driver_chunks=len(chunks),
                assumptions=['closed world: the node classes are those a factory of the five translation units builds; the hooks are the overloads of ipr::Visitor::visit in the catalogue',
                             'VIEW is checked for the own category and two other leaf categories per node class; for every other pair it follows from ACCEPT (exactly the own hook is called) and DEFAULT (an own hook that is not overridden forwards only to abstract super-categories)',
                             'nodes not built by a factory (declarations made by scopes, regions, units, built-in constants) are covered by C07 / C12 / C13 obligations that also assert the category code'])
    return units, obs, meta
