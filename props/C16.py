import os
import ipv
from ipv import Unit, Ob, VERIF
import factories as F

def build(tier, seed):
    u = Unit('subst', '/repo/src/impl.cxx',
             roots=['ipr::impl::Elementary_substitution::operator[]', 'ipr::impl::Elementary_substitution::Elementary_substitution',
                    'ipr::impl::General_substitution::operator[]', 'ipr::impl::General_substitution::subst', 'ipr::impl::General_substitution::General_substitution'],
             transparent=['std::basic_string_view', 'std::pair'],
             names=dict(elem_ctor='ipr::impl::Elementary_substitution::Elementary_substitution',
                        elem_index='ipr::impl::Elementary_substitution::operator[]',
                        gen_index='ipr::impl::General_substitution::operator[]',
                        gen_subst='ipr::impl::General_substitution::subst', gen_ctor=('ipr::impl::General_substitution::General_substitution', 'void (void)')))
    # std stubs are resolved by their mangled names (stable: they encode only the std signature)
    M = '_ZNKSt3mapIPKN3ipr9ParameterEPKNS0_4ExprESt4lessIS3_ESaISt4pairIKS3_S6_EEE'
    u.std = dict(map_find='__std_' + M + '4findERSA_', map_end='__std_' + M + '3endEv',
                 it_eq='__std__ZSteqRKSt23_Rb_tree_const_iteratorISt4pairIKPKN3ipr9ParameterEPKNS1_4ExprEEESC_',
                 it_arrow='__std__ZNKSt23_Rb_tree_const_iteratorISt4pairIKPKN3ipr9ParameterEPKNS1_4ExprEEEptEv',
                 map_insert_or_assign='__std__ZNSt3mapIPKN3ipr9ParameterEPKNS0_4ExprESt4lessIS3_ESaISt4pairIKS3_S6_EEE16insert_or_assignIS6_EES9_ISt17_Rb_tree_iteratorISB_EbEOS3_OT_')
    obs = [
        Ob('C16.elementary', u, 'C16/subst.c', 'h_elem', 'elementary substitution: bound parameter -> bound expression, any other parameter -> itself', kind='K1', replay='C16'),
        Ob('C16.general.lookup', u, 'C16/subst.c', 'h_gen_lookup', 'general substitution lookup over the assumed std::map contract: hit -> mapped value, miss -> the parameter', kind='K1', replay='C16'),
        Ob('C16.general.subst', u, 'C16/subst.c', 'h_gen_subst', 'general substitution: latest binding wins, other parameters unchanged', kind='K1', replay='C16'),
    ]
    # the substitutions as the Lexicon's factories hand them out: several requests in a row through the real farms
    if '-I' + os.path.join(VERIF, 'drivers') not in ipv.CLANG_ARGS:
        ipv.CLANG_ARGS.append('-I' + os.path.join(VERIF, 'drivers'))
    SC = dict(elementary_twice=['an elementary substitution maps its parameter to the expression it was built with', 'an elementary substitution has no other binding (not that of a substitution made before)', 'the substitution made before is what it was'],
              general_twice=['a new general substitution is empty', 'a second general substitution is empty whatever the first holds', 'latest binding per parameter, nothing from another substitution (first)', 'latest binding per parameter, nothing from another substitution (second)'])
    sn = {'sb_' + k: 'drv::sb_' + k for k in SC}
    su = Unit('farms', 'drivers/substitutions.cxx', roots=sorted(sn.values()), names=sn, transparent=['std::basic_string_view', 'std::pair'])
    su.std = dict(u.std)
    def mksgen(k):
        def gen(unit):
            fn = unit.by_name[unit.resolve_name('sb_' + k)]
            ret, cname, cps = F.cparams(fn['sig'])
            t = F.PRELUDE_C + (open(os.path.join(VERIF, 'harness/C16/mapmodel.h')).read() if k == 'general_twice' else '') + F.ext_models(unit) + 'void h_sb_%s(void)\n{\n' % k
            args = []
            for i, (ct, pn) in enumerate(cps):
                if ct.strip() in ('_Bool', 'bool'):
                    t += '  _Bool %s = nondet_bool();\n' % pn
                else:
                    t += ('  %s %s = NEWZ(%s);\n' % (ct, pn, ct[:-1].strip())) if 'Lexicon' in ct else F.operand_decl(ct, pn, i)
                args.append(pn)
            t += '  unsigned bad = %s(%s);\n' % (cname, ', '.join(args))
            for b, text_ in enumerate(SC[k]):
                t += '  __CPROVER_assert(!(bad & %du), "C16 %s: %s");\n' % (1 << b, k.replace('_', ' '), text_)
            return t + '  IPR_CANARY_POINT();\n}\n', [], dict(scenario=k)
        return gen
    for k in SC:
        o = Ob('C16.factory.' + k, su, None, 'h_sb_' + k, 'substitutions from the Lexicon factories: ' + k.replace('_', ' '), kind='K1', replay='C16', timeout=300, flags=['--unwind', '12'], objbits=12)
        o.gen = mksgen(k); obs.append(o)
    meta = dict(sweep_family='C16', 
        functions_under_contract=['elem_ctor', 'elem_index', 'gen_index', 'gen_subst'],
        assumptions=['std::map<const Parameter*, const Expr*> behaves as a finite map (find / end / insert_or_assign / iterator ==, ->): single-witness abstraction in harness/C16/subst.c',
                     'exceptions: none can be raised by these functions (no throw in the lowered bodies)'])
    return [u, su], obs, meta
