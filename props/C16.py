from ipv import Unit, Ob

def build(tier, seed):
    u = Unit('subst', '/repo/src/impl.cxx',
             roots=['ipr::impl::Elementary_substitution::operator[]', 'ipr::impl::Elementary_substitution::Elementary_substitution',
                    'ipr::impl::General_substitution::operator[]', 'ipr::impl::General_substitution::subst', 'ipr::impl::General_substitution::General_substitution'],
             transparent=['std::basic_string_view', 'std::pair'],
             names=dict(elem_ctor='ipr::impl::Elementary_substitution::Elementary_substitution',
                        elem_index='ipr::impl::Elementary_substitution::operator[]',
                        gen_index='ipr::impl::General_substitution::operator[]',
                        gen_subst='ipr::impl::General_substitution::subst', gen_ctor=('ipr::impl::General_substitution::General_substitution', 'void (void)')))
    # std stubs are resolved by their mangled names (stable: they encode only the std signature)
    M = '_ZNKSt3mapIPKN3ipr9ParameterEPKNS0_4ExprESt4lessIS3_ESaISt4pairIKS3_S6_EEE'
    u.std = dict(map_find='__std_' + M + '4findERSA_', map_end='__std_' + M + '3endEv',
                 it_eq='__std__ZSteqRKSt23_Rb_tree_const_iteratorISt4pairIKPKN3ipr9ParameterEPKNS1_4ExprEEESC_',
                 it_arrow='__std__ZNKSt23_Rb_tree_const_iteratorISt4pairIKPKN3ipr9ParameterEPKNS1_4ExprEEEptEv',
                 map_insert_or_assign='__std__ZNSt3mapIPKN3ipr9ParameterEPKNS0_4ExprESt4lessIS3_ESaISt4pairIKS3_S6_EEE16insert_or_assignIS6_EES9_ISt17_Rb_tree_iteratorISB_EbEOS3_OT_')
    obs = [
        Ob('C16.elementary', u, 'C16/subst.c', 'h_elem', 'elementary substitution: bound parameter -> bound expression, any other parameter -> itself', kind='K1', replay='C16'),
        Ob('C16.general.lookup', u, 'C16/subst.c', 'h_gen_lookup', 'general substitution lookup over the assumed std::map contract: hit -> mapped value, miss -> the parameter', kind='K1', replay='C16'),
        Ob('C16.general.subst', u, 'C16/subst.c', 'h_gen_subst', 'general substitution: latest binding wins, other parameters unchanged', kind='K1', replay='C16'),
    ]
    meta = dict(sweep_family='C16', 
        functions_under_contract=['elem_ctor', 'elem_index', 'gen_index', 'gen_subst'],
        assumptions=['std::map<const Parameter*, const Expr*> behaves as a finite map (find / end / insert_or_assign / iterator ==, ->): single-witness abstraction in harness/C16/subst.c',
                     'exceptions: none can be raised by these functions (no throw in the lowered bodies)'])
    return [u], obs, meta
