"""C13: Lexicon constants are distinct, correctly spelled, self-describing, process-wide.  The constant tables are the ones clang
evaluates from the source (cxx2c emits them as C globals); the accessors, get_as_type(Identifier), get_decltype and
denote_builtin_type are the lowered real bodies.  The oracle (accessor -> documented C++ spelling) is written from the comments
of <ipr/interface> (ushort_type's comment says "unsigned char": an evident typo, the oracle says "unsigned short")."""
import os
from ipv import Unit, Ob, VERIF
from gen import insert_stubs

L = 'ipr::impl::Lexicon::'
TYPES = [('void', 'void'), ('bool', 'bool'), ('char', 'char'), ('schar', 'signed char'), ('uchar', 'unsigned char'), ('wchar_t', 'wchar_t'), ('char8_t', 'char8_t'),
         ('char16_t', 'char16_t'), ('char32_t', 'char32_t'), ('short', 'short'), ('ushort', 'unsigned short'), ('int', 'int'), ('uint', 'unsigned int'), ('long', 'long'),
         ('ulong', 'unsigned long'), ('long_long', 'long long'), ('ulong_long', 'unsigned long long'), ('float', 'float'), ('double', 'double'), ('long_double', 'long double'),
         ('ellipsis', '...'), ('typename', 'typename'), ('class', 'class'), ('union', 'union'), ('enum', 'enum'), ('namespace', 'namespace')]
VALUES = [('false', 'false', 'bool'), ('true', 'true', 'bool'), ('nullptr', 'nullptr', None), ('default', 'default', None), ('delete', 'delete', 'void')]


def text(unit):
    t = '#define NTYPES %d\n' % len(TYPES)
    t += 'static unsigned char SPELL[NTYPES][24] = {%s};\nstatic unsigned long SPELL_LEN[NTYPES] = {%s};\nstatic int WORD_INDEX[NTYPES] = {%s};\n' % (
        ', '.join('{%s}' % ', '.join(str(ord(c)) for c in sp) for _, sp in TYPES), ', '.join(str(len(sp)) for _, sp in TYPES), ', '.join('@{word:%s}' % sp for _, sp in TYPES))
    t += '#define ACCESSOR(k, L) (%s 0)\n' % ' '.join('(k) == %d ? @{T_%s}(L) :' % (i, a) for i, (a, _) in enumerate(TYPES))
    t += '#define NVALUES %d\n' % len(VALUES)
    t += 'static int VWORD[NVALUES] = {%s};\n' % ', '.join('@{word:%s}' % sp for _, sp, _ in VALUES)
    t += '#define VACCESSOR(k, L) (%s 0)\n' % ' '.join('(k) == %d ? @{V_%s}(L) :' % (i, a) for i, (a, _, _) in enumerate(VALUES))
    t += '#define VTYPE(k, L) (%s 0)\n' % ' '.join('(k) == %d ? %s :' % (i, ('@{T_%s}(L)' % ty) if ty else '(type_t*)0') for i, (_, _, ty) in enumerate(VALUES))
    t += '#define W_C @{word:C}\n#define W_CPP @{word:C++}\n'
    return t


def build(tier, seed):
    names = {'T_' + a: L + a + '_type' for a, _ in TYPES}
    names.update({'V_' + a: L + a + '_value' for a, _, _ in VALUES})
    TFI = '=_ZN3ipr4impl12type_factory11get_as_typeERKNS_10IdentifierE'
    names.update(c_linkage=L + 'c_linkage', cxx_linkage=L + 'cxx_linkage', get_as_type_id=('ipr::impl::type_factory::get_as_type', TFI), get_decltype='ipr::impl::type_factory::get_decltype',
                 denote='ipr::denote_builtin_type', cxx_transfer='ipr::impl::cxx_transfer', type_name='ipr::Type::name', type_transfer='ipr::Type::transfer', expr_type='ipr::Expr::type',
                 un_expr_operand='ipr::Basic_unary<const ipr::Expr &>::operand', un_name_operand='ipr::Basic_unary<const ipr::Name &>::operand', un_string_operand='ipr::Basic_unary<const ipr::String &>::operand',
                 xfer_first='ipr::Basic_binary<const ipr::Linkage &, const ipr::Calling_convention &>::first', xfer_second='ipr::Basic_binary<const ipr::Linkage &, const ipr::Calling_convention &>::second',
                 empty_string='ipr::String::empty_string', known_word='ipr::impl::(anonymous namespace)::known_word')
    vroots = [names[k] for k in ('type_name', 'type_transfer', 'expr_type', 'un_expr_operand', 'un_name_operand', 'un_string_operand', 'xfer_first', 'xfer_second')]
    roots = sorted(set(v if isinstance(v, str) else v[0] for k, v in names.items() if k not in ('type_name', 'type_transfer', 'expr_type', 'un_expr_operand', 'un_name_operand', 'un_string_operand', 'xfer_first', 'xfer_second')))
    u = Unit('constants', '/repo/src/impl.cxx', roots=roots, vroots=vroots, names=names)
    H = 'C13/constants.c'
    def gen(unit):
        stubs, skipped, info = insert_stubs(unit)
        return text(unit) + stubs + open(os.path.join(VERIF, 'harness', H)).read(), skipped + [unit.resolve_text('@{known_word}')], info
    obs = [
        Ob('C13.types', u, H, 'h_types', 'the 26 built-in type accessors: pairwise distinct entries of the constant table, each named by the reserved Identifier of its documented spelling, its own underlying expression, typed `typename`, natural C++ transfer; independent of the Lexicon object',
           kind='K1', flags=['--unwind', '72'], replay='C13', timeout=900),
        Ob('C13.values', u, H, 'h_values', 'true, false, nullptr, default, delete and the two standard linkages: distinct, named by the reserved word of their spelling, typed bool / bool / decltype(nullptr) / void; independent of the Lexicon object',
           kind='K1', flags=['--unwind', '72'], replay='C13', timeout=900),
        Ob('C13.route.as_type', u, H, 'h_route_as_type', 'get_as_type(Identifier): the reserved Identifier of a built-in spelling yields that built-in constant (each of the 27 table entries), any other Identifier an extended type that is not a built-in',
           kind='K1', flags=['--unwind', '72'], replay='C13', timeout=900),
        Ob('C13.route.decltype', u, H, 'h_route_decltype', 'get_decltype(nullptr constant) is the type of the nullptr constant; denote_builtin_type holds exactly for nodes that are their own underlying expression',
           kind='K1', flags=['--unwind', '72'], replay='C13', timeout=900),
    ]
    for o in obs:
        o.gen = gen
    # routes from a spelling that C04 proves: get_identifier(spelling) is the reserved Identifier, get_linkage("C" / "C++") and get_label(default) are the constants
    import C04
    u4, o4, m4 = C04.build(tier, seed)
    keep = [o for o in o4 if any(o.id.startswith(p) for p in ('C04.get.identifier.', 'C04.get.linkage.', 'C04.get.linkage_word.', 'C04.get.label', 'C04.get.symbol_void_then_label'))]
    for o in keep:
        o.id = 'C13.route.' + o.id.split('.', 2)[2]
    # ... and the route word -> String (interning: a reserved spelling yields the process-wide constant String, on which
    # get_linkage(String) and the identifier routes rest) as C03 establishes it on the real code
    strings = [o for o in o4 if o.id in ('C04.strings.intern', 'C04.strings.word_if_known', 'C04.strings.known_word')]
    for o in strings:
        o.id = 'C13.route.strings.' + o.id.split('.', 2)[2]
    keep += strings
    meta = dict(sweep_family='C13', functions_under_contract=sorted(names), assumptions=[
        'constant tables (reserved words, built-ins, symbolic constants, linkages, natural transfer) are the values clang\'s constant evaluator gives for the constexpr objects of src/impl.cxx',
        'rb_tree::container<T>::insert through its contract (C08) for the extended-type table',
        'closed world: the built-in type accessors are the 26 declared in <ipr/interface> (oracle table in props/C13.py)'])
    return [u] + u4, obs + keep, meta
