"""C14: missing or out-of-range data raises a logic error, never undefined behaviour.
   ACC: one obligation per factory member function (same enumeration as C02): the node is built by the real factory with every optional
     argument present or absent and every link that is set after construction still unset; then ONE interface accessor, chosen
     nondeterministically among all public const virtual accessors the interface class declares or inherits (from the class catalogue),
     is called through the interface.  Under cbmc's pointer and bounds checks it must either return a valid result or raise an
     exception derived from std::logic_error (any other exception fails the EXC assertion).  A sequence-valued accessor is followed
     by size() and by positional access at a symbolic index: within bounds a valid element, at or beyond size() a logic error.
   PRIM: util::check, util::ref::get, Optional::get on null / non-null; the sequence implementations (ref_sequence, obj_list,
     obj_sequence, empty_sequence, singleton_obj, singleton_ref, typed_sequence) at a symbolic index against their size."""
import os, re
import ipv, factories as F
from ipv import Unit, Ob, Undecided, VERIF, BUILD

HELP = r'''
namespace drv {
   // what an accessor returned is usable: references are bound to objects, sequences are readable at every index below size()
   // and refuse every other index, Optionals hold an object or nothing
   template<class T> struct is_seq : std::false_type { };
   template<class T> struct is_seq<ipr::Sequence<T>> : std::true_type { };
   template<class T> inline void touch_seq(const ipr::Sequence<T>& s, std::size_t k, unsigned& bad)
   {
      std::size_t n = s.size();
      const T& e = *s.position(k);                    // raises a logic error for k >= n
      if (k >= n) bad |= 2u;                          // returned normally for an index at or beyond size()
      if (&e == nullptr) bad |= 1u;
   }
   template<class T> inline void touch(const T& r, std::size_t k, unsigned& bad)
   {
      if constexpr (std::is_class_v<T>) { if (&r == nullptr) bad |= 1u; }
   }
   template<class T> inline void touch(const ipr::Sequence<T>& s, std::size_t k, unsigned& bad) { if (&s == nullptr) { bad |= 1u; return; } touch_seq(s, k, bad); }
   template<class T> inline void touch(ipr::Optional<T> o, std::size_t, unsigned& bad) { if (o.is_valid() && &o.get() == nullptr) bad |= 1u; }
}
'''
SKIP_ACC = ('accept',)


def build(tier, seed):
    work = os.path.join(BUILD, 'gen', 'C14'); os.makedirs(work, exist_ok=True)
    recs = F.catalogue(work)
    facs = [f for f in F.factories(recs, F.FACTORY_CLASSES + ['ipr::impl::Scope']) if f['id'] not in ('make_literal.1', 'make_token', 'make_annotation')]      # + declarations entered into a scope
    head = F.LIB % (ipv.REPO, VERIF) + HELP + 'namespace drv {\n'
    items = []
    for f in facs:
        impl = F.pointee(f['ret_canon']); iface = F.interface_of(recs, impl)
        if iface not in recs:
            continue
        accs = [a for a in F.accessors(recs, iface) if a['name'] not in SKIP_ACC]
        if accs:
            items.append((f, iface, accs))
    NCH = 14
    chunks = [items[i:i + NCH] for i in range(0, len(items), NCH)]
    def wrapper(f, iface, accs):
        ps = list(f['params']); names = ['a%d' % j for j in range(len(ps))]
        w = 'unsigned c14_%s(%s& f%s, int which, std::size_t k)\n{\n   const auto& n = deref(f.%s(%s));\n   const %s& i = n;\n   unsigned bad = 0;\n   switch (which) {\n' % (
            f['cid'], f['cls'], ''.join(', %s %s' % (p, a) for p, a in zip(ps, names)), f['name'], ', '.join(names), iface)
        through = set(F.tkey(p) for p in f['params_canon'] if F.tkey(p).startswith('ipr::Sequence<'))
        for j, a in enumerate(accs):
            if F.tkey(a['ret']) in through:      # the caller's own (foreign) sequence handed back: its size()/get() are not the library's
                w += '   case %d: if (&i.%s() == nullptr) bad |= 1u; break;\n' % (j, a['name'])
            else:
                w += '   case %d: touch(i.%s(), k, bad); break;\n' % (j, a['name'])
        return w + '   default: break;\n   }\n   return bad;\n}\n'
    def make_unit(ci, chunk):
        text, spans = head, {}
        line = text.count('\n') + 1
        for f, iface, accs in chunk:
            w = wrapper(f, iface, accs); n = w.count('\n'); spans[f['cid']] = (line, line + n - 1); line += n; text += w
        text += '}\n'
        fname = 'c14_driver_%02d.cxx' % ci
        text, dropped = F.syntax_filter(text, spans, work, fname)
        names = {'w_' + f['cid']: 'drv::c14_' + f['cid'] for f, _, _ in chunk if f['cid'] not in dropped}
        u = Unit('accessors%02d' % ci, os.path.join(work, fname), roots=sorted(names.values()), names=names)
        u.lower(os.path.join(work, 'lowered'))
        return u, dropped
    import concurrent.futures
    with concurrent.futures.ThreadPoolExecutor(max_workers=8) as ex:
        made = list(ex.map(lambda a: make_unit(*a), enumerate(chunks)))
    obs, uncovered, units, nacc = [], {}, [], 0
    def mkgen(f, iface, accs):
        def gen(unit):
            fn = unit.by_name[unit.resolve_name('w_' + f['cid'])]
            ret, cname, cps = F.cparams(fn['sig'])
            t = F.PRELUDE_C + F.ext_models(unit) + 'void h_%s(void)\n{\n' % f['cid']
            args = []
            for k, (ct, pn) in enumerate(cps):
                if k == 0:
                    t += '  %s %s = NEWZ(%s);\n' % (ct, pn, ct[:-1].strip())
                elif pn == 'v_which':
                    t += '  int v_which; { int t_w; v_which = t_w; } __CPROVER_assume(0 <= v_which && v_which <= %d);      /* %d: no accessor called (keeps the end of the harness reachable when every accessor refuses) */\n' % (len(accs), len(accs))
                else:
                    t += F.operand_decl(ct, pn, k)
                args.append(pn)
            t += '  __ipr_allow_exc = IPR_ALLOW_LOGIC;      /* the only exceptions an accessor may raise are those derived from std::logic_error */\n'
            t += '  unsigned bad = %s(%s);\n' % (cname, ', '.join(args))
            who = '%s::%s' % (f['cls'].split('::')[-1], f['id'])
            t += '  __CPROVER_assert(!(bad & 1u), "C14 %s: an accessor that returns normally returns a valid object");\n' % who
            t += '  __CPROVER_assert(!(bad & 2u), "C14 %s: a sequence element at or beyond size() is refused");\n  IPR_CANARY_POINT();\n}\n' % who
            return t, [], dict(factory=f['cls'] + '::' + f['name'], interface=iface, accessors=[a['name'] for a in accs])
        return gen
    for (u, dropped), chunk in zip(made, chunks):
        units.append(u)
        nobody = set(x['qualified'] for x in u.json['no_body'])
        for f, iface, accs in chunk:
            if f['cid'] in dropped:
                uncovered[f['id']] = 'wrapper rejected by clang: ' + dropped[f['cid']][:160]; continue
            if f['cls'] + '::' + f['name'] in nobody:
                uncovered[f['id']] = 'declared but never defined'; continue
            o = Ob('C14.acc.%s.%s' % (f['cls'].split('::')[-1], f['id']), u, None, 'h_' + f['cid'],
                   'node built by %s::%s with optional parts present or absent: each of the %d accessors of %s (%s) returns a valid result or raises a logic error; sequences refuse indices at or beyond size()' % (f['cls'], f['name'], len(accs), iface, ', '.join(a['name'] for a in accs)),
                   kind='K1', replay='C14', timeout=600, flags=['--unwind', '12'], objbits=12)
            o.gen = mkgen(f, iface, accs); obs.append(o); nacc += len(accs)
    # primitives and sequence implementations (hand-written driver)
    if '-I' + os.path.join(VERIF, 'drivers') not in ipv.CLANG_ARGS:
        ipv.CLANG_ARGS.append('-I' + os.path.join(VERIF, 'drivers'))
    PR = ['capture_name', 'fundecl_definition_form', 'secondary_template_after_var', 'obj_list_interleaved', 'check', 'ref', 'optional', 'ref_sequence', 'obj_list', 'obj_sequence', 'empty_sequence', 'singleton_ref', 'singleton_obj', 'typed_sequence']
    pn = {'p_' + k: 'drv::p_' + k for k in PR}
    pu = Unit('primitives', 'drivers/access.cxx', roots=sorted(pn.values()), names=pn)
    def mkpgen(k):
        def gen(unit):
            fn = unit.by_name[unit.resolve_name('p_' + k)]
            ret, cname, cps = F.cparams(fn['sig'])
            t = F.PRELUDE_C + F.ext_models(unit) + 'void h_p_%s(void)\n{\n' % k
            args = []
            pooled = F.pooled_type_and_forall(cps)
            if pooled:
                t += pooled[0]
            for i, (ct, pn_) in enumerate(cps):
                if pooled and pn_ in pooled[1]:
                    args.append(pn_); continue
                if ct.endswith('*') and ct.startswith('struct ') and pn_ in ('v_p', 'v_q'):
                    t += '  %s %s = nondet_bool() ? NEWZ(%s) : 0;      /* present or absent */\n' % (ct, pn_, ct[:-1].strip())
                else:
                    t += F.operand_decl(ct, pn_, i)
                args.append(pn_)
            t += '  __ipr_allow_exc = IPR_ALLOW_LOGIC;\n  unsigned bad = %s(%s);\n' % (cname, ', '.join(args))
            t += '  __CPROVER_assert(bad == 0, "C14 %s: present data is returned as it is, missing or out-of-range data is refused with a logic error");\n  IPR_CANARY_POINT();\n}\n' % k.replace('_', ' ')
            return t, [], dict(primitive=k)
        return gen
    for k in PR:
        o = Ob('C14.prim.' + k, pu, None, 'h_p_' + k, k.replace('_', ' ') + ': null / empty / out-of-range refused with a logic error, otherwise exactly the datum; symbolic index against size()', kind='K1', replay='C14', timeout=600, flags=['--unwind', '12'], objbits=12)
        o.gen = mkpgen(k); obs.append(o)
        if k in ('empty_sequence', 'capture_name', 'fundecl_definition_form', 'secondary_template_after_var'):
            o.no_canary = True      # every index is out of range: the call never returns normally, which is the property; reaching it is witnessed by the EXC assertion inside __ipr_throw
    meta = dict(sweep_family='C14', functions_under_contract=sorted(set(f['cls'] + '::' + f['name'] for f, _, _ in items)) + sorted(pn.values()), factories=len(facs), factories_covered=len(obs) - len(PR),
                accessor_calls_covered=nacc, not_covered=uncovered, driver_chunks=len(chunks),
                assumptions=['exceptions: `throw E` is lowered to a call carrying E\'s class id and whether E derives from std::logic_error (clang\'s inheritance facts); any exception outside that family fails an assertion',
                             'operands are valid foreign nodes; links set after construction are in their freshly constructed (unset) state; container sequence models assert their capacity bounds',
                             'accessors taking arguments (operator[] of scopes and overload sets, Substitution) are C07 / C16'])
    return units + [pu], obs, meta
